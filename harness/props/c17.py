"""C17 — two-sided user constraints are translated faithfully into the internal form.

Proof: lean/CobyqaVerif/Props/C17.lean.  Tie: real LinearConstraints / NonlinearConstraints (through
cobyqa.main._get_constraints, so scalar-broadcast limits are included) on the lattice of limit
patterns, compared exactly with Model/Constraints.lean run on Float; the largest internal violation is
compared with the largest amount by which the values leave [lb, ub], computed independently."""
import itertools
import warnings
import numpy as np
from scipy.optimize import LinearConstraint, NonlinearConstraint, Bounds
from common import f2b, b2f, driver, proof_stage

MODULES = ["CobyqaVerif.Props.C17"]
LEVEL = "proof"
INF = float("inf")
NAN = float("nan")
up = lambda x: float(np.nextafter(x, INF))

# (lb, ub) patterns of the property: {-inf, finite, equal, +inf, NaN} with lb <= ub when both are numbers
PATTERNS = [(-INF, INF), (-INF, 1.5), (-0.5, INF), (-0.5, 1.5), (0.75, 0.75), (0.75, up(0.75)), (2.0, 2.0 + 1e-13),
            (NAN, 1.5), (-0.5, NAN), (NAN, NAN), (-INF, NAN), (NAN, INF), (0.0, 0.0), (-1e-300, 1e-300), (1e10, 1e10 + 1.0)]
VALUES = [-3.0, -0.5, 0.0, 0.75, up(0.75), 1.5, up(1.5), 2.0, 7.25]


def true_violation(lims, w, tol_eq=None):
    """largest amount by which the values leave [lb, ub]; NaN / infinite limits are no limits"""
    v = 0.0
    for (lb, ub), x in zip(lims, w):
        if np.isfinite(lb):
            v = max(v, lb - x)
        if np.isfinite(ub):
            v = max(v, x - ub)
    return v


def gen_case(rng, tier):
    m = int(rng.integers(1, 5))
    lims = [PATTERNS[int(rng.integers(len(PATTERNS)))] for _ in range(m)]
    if rng.random() < 0.3:
        s = float(10 ** rng.uniform(-6, 6))
        lims = [(lb * s, ub * s) for lb, ub in lims]
    n = int(rng.integers(1, 4))
    A = np.round(rng.normal(size=(m, n)), 3)
    if rng.random() < 0.15:
        A[int(rng.integers(m)), int(rng.integers(n))] = NAN
    w = [VALUES[int(rng.integers(len(VALUES)))] if rng.random() < 0.7 else float(np.round(rng.normal() * 3, 3)) for _ in range(m)]
    bc = None
    if rng.random() < 0.5 and m > 1:    # scalar-broadcast limit
        side = int(rng.integers(2))
        val = lims[0][side]
        lims = [((val, ub) if side == 0 else (lb, val)) for lb, ub in lims]
        bc = side
    return {"lims": lims, "A": A.tolist(), "w": w, "broadcast": bc}


def run_impl_linear(objs, n):
    from cobyqa.main import _get_constraints
    from cobyqa.problem import LinearConstraints
    cons = []
    for c in objs:
        lb = [l for l, _ in c["lims"]]
        ub = [u for _, u in c["lims"]]
        if c["broadcast"] == 0:
            lb = lb[0]
        elif c["broadcast"] == 1:
            ub = ub[0]
        cons.append(LinearConstraint(np.array(c["A"], float), lb, ub))
    lin, _ = _get_constraints(cons)
    return LinearConstraints(lin, n, False)


def run_impl_nonlinear(objs):
    from cobyqa.main import _get_constraints
    from cobyqa.problem import NonlinearConstraints
    cons = []
    for c in objs:
        lb = [l for l, _ in c["lims"]]
        ub = [u for _, u in c["lims"]]
        if c["broadcast"] == 0:
            lb = lb[0]
        elif c["broadcast"] == 1:
            ub = ub[0]
        cons.append(NonlinearConstraint(lambda x, _w=c["w"]: np.array(_w, float), lb, ub))
    _, nl = _get_constraints(cons)
    return NonlinearConstraints(nl, False, False)


def bits_arr(a):
    return [f2b(v) for v in np.asarray(a, float).ravel()]


def same_bits(a, b):
    a, b = np.asarray(a, float), np.asarray(b, float)
    if a.shape != b.shape:
        return False
    return all((x == y) or (x != x and y != y) for x, y in zip(a.ravel(), b.ravel()))


def problem_level(pc):
    """None: the case is rejected as malformed by the implementation; "": fine; text: failure"""
    import impl
    from cobyqa.main import _get_constraints
    objs = pc["objs"]
    for o in objs:
        o["lims"] = [tuple(float(v) for v in p) for p in o["lims"]]
    lo, hi, x0 = np.array(pc["lo"], float), np.array(pc["hi"], float), np.array(pc["x0"], float)
    cons = [LinearConstraint(np.array(o["A"], float), [l for l, _ in o["lims"]], [u for _, u in o["lims"]]) for o in objs]
    try:
        with warnings.catch_warnings():
            warnings.simplefilter("ignore")
            pb = impl.make_problem(lambda x: 0.0, x0, bounds=Bounds(lo, hi), linear=_get_constraints(cons)[0], scale=pc["scale"])
            u = np.array(pc["u"], float)[~(lo == hi)]
            z = pb.bounds.xl + u * (pb.bounds.xu - pb.bounds.xl)
            xu_ = pb.build_x(z)
            internal = float(pb.maxcv(z))
    except (ValueError, TypeError):
        return None
    truth, slack = 0.0, 0.0
    for o in objs:
        truth = max(truth, true_violation(o["lims"], np.array(o["A"], float) @ xu_))
        slack = max([slack] + [0.5 * abs(b - a) for a, b in o["lims"] if np.isfinite(a) and np.isfinite(b) and abs(b - a) <= 1e-9 * max(1.0, abs(a), abs(b))])
    fin = [abs(v) for o in objs for p in o["lims"] for v in p if np.isfinite(v)]
    sc = max([1.0, abs(truth), 10 * float(np.max(np.abs(xu_)))] + fin)
    if not abs(internal - truth) <= slack + 1e-9 * sc:
        return (f"problem level (bounds {lo.tolist()} {hi.tolist()}, scale {pc['scale']}, x0 {x0.tolist()}): the violation computed at the internal point "
                f"{z.tolist()} is {internal!r} but A x leaves its limits by {truth!r} at the user point {xu_.tolist()}")
    return ""


def dict_compare(case):
    """a list of dictionary constraints (and possibly another constraint, in any order) against the
    NonlinearConstraint objects they stand for: same internal values, bit for bit"""
    from cobyqa.main import _get_constraints
    from cobyqa.problem import NonlinearConstraints
    dicts, equiv = [], []
    for d in case["dicts"]:
        C = np.array(d["C"], float)
        sh = tuple(d["args"])

        def f(x, *a, _C=C):
            return _C @ np.asarray(x, float) + float(sum(a))
        dd = {"type": d["type"], "fun": f}
        if sh or d.get("give_args"):
            dd["args"] = sh
        dicts.append(dd)
        equiv.append(NonlinearConstraint(lambda x, _f=f, _a=sh: _f(x, *_a), 0.0, 0.0 if d["type"] == "eq" else INF))
    other = [NonlinearConstraint(lambda x: np.array([float(np.sum(x))]), -1.0, 1.0)] if case.get("other") else []
    mix_d = [(dicts + other)[i] for i in case["order"]]
    mix_e = [(equiv + other)[i] for i in case["order"]]
    xs = np.array(case["x"], float)
    try:
        a_ub, a_eq = NonlinearConstraints(_get_constraints(mix_d)[1], False, False)(xs)
        b_ub, b_eq = NonlinearConstraints(_get_constraints(mix_e)[1], False, False)(xs)
    except Exception as exc:  # noqa
        return "dictionary constraints: exception " + type(exc).__name__ + ": " + str(exc)[:100]
    if not (same_bits(a_ub, b_ub) and same_bits(a_eq, b_eq)):
        return (f"dictionary constraints give internal values {np.asarray(a_ub).tolist()} / {np.asarray(a_eq).tolist()} but the constraints they "
                f"stand for give {np.asarray(b_ub).tolist()} / {np.asarray(b_eq).tolist()}")
    return None


def run(chk, rng, replay=None):
    ok, info = proof_stage(chk, MODULES)
    n_cases = 400 if chk.tier == "quick" else 10000
    if replay is not None and replay["objs"] and ("dicts" in replay["objs"][0] or "problem" in replay["objs"][0]):
        groups = []
    elif replay is not None:
        groups = [replay["objs"]]
        for o in groups[0]:
            o["lims"] = [tuple(float(v) for v in p) for p in o["lims"]]
    else:
        groups = []
        # exhaustive: one object with two components over all pattern pairs
        for p1, p2 in itertools.product(PATTERNS, repeat=2):
            if chk.tier == "quick" and rng.random() > 0.35:
                continue
            groups.append([{"lims": [p1, p2], "A": [[1.0, 0.0], [0.5, -2.0]], "w": [VALUES[int(rng.integers(len(VALUES)))] for _ in range(2)], "broadcast": None}])
        while len(groups) < n_cases:
            k = int(rng.integers(1, 4))
            objs = [gen_case(rng, chk.tier) for _ in range(k)]
            n = len(objs[0]["A"][0])
            for o in objs:   # same number of variables
                o["A"] = [row[:n] + [0.0] * max(0, n - len(row)) for row in o["A"]]
            groups.append(objs)
    reqs = []
    for objs in groups:
        for o in objs:
            flat = " ".join(f"{f2b(l)} {f2b(u)}" for l, u in o["lims"])
            reqs.append("splitlin | " + flat)
            reqs.append(f"splitnl {len(o['lims'])} | " + flat + " " + " ".join(str(f2b(v)) for v in o["w"]))
    ans = iter(driver(reqs) if reqs else [])
    mism, specfail = [], []
    patt = set()
    n_rows = n_eqs = 0
    with warnings.catch_warnings():
        warnings.simplefilter("ignore")
        for objs in groups:
            n = len(objs[0]["A"][0])
            a_ub, b_ub, a_eq, b_eq, cub, ceq = [], [], [], [], [], []
            for o in objs:
                A = np.array(o["A"], float)
                A0 = np.where(np.isnan(A), 0.0, A)
                tolb, rows, eqs = next(ans).split(" ; ")
                for t in rows.split():
                    k, sg, rhs = t.split(":")
                    a_ub.append(A0[int(k)] if sg == "1" else -A0[int(k)])
                    b_ub.append(b2f(int(rhs)))
                for t in eqs.split():
                    k, b = t.split(":")
                    a_eq.append(A0[int(k)])
                    b_eq.append(b2f(int(b)))
                cu, ce = next(ans).split(" ; ")
                cub += [b2f(int(t)) for t in cu.split()]
                ceq += [b2f(int(t)) for t in ce.split()]
                for p in o["lims"]:
                    patt.add((np.sign(p[0]) if np.isfinite(p[0]) else str(p[0]), str(p[1]) if not np.isfinite(p[1]) else "fin", p[0] == p[1]))
            n_rows += len(b_ub)
            n_eqs += len(b_eq)
            try:
                L = run_impl_linear(objs, n)
                okl = same_bits(L.a_ub, np.array(a_ub, float).reshape(-1, n)) and same_bits(L.b_ub, b_ub) and \
                    same_bits(L.a_eq, np.array(a_eq, float).reshape(-1, n)) and same_bits(L.b_eq, b_eq)
                if not okl:
                    mism.append((objs, "linear", [L.a_ub.tolist(), L.b_ub.tolist(), L.a_eq.tolist(), L.b_eq.tolist()], [np.array(a_ub).tolist(), b_ub, np.array(a_eq).tolist(), b_eq]))
                # spec on the implementation's own linear system: at a point x the largest violation must be the
                # largest amount by which A x leaves the limits (NaN coefficients count as 0)
                xs = np.round(rng.normal(size=n) * 2, 3)
                lin_truth, lin_slack = 0.0, 0.0
                for o in objs:
                    A0 = np.where(np.isnan(np.array(o["A"], float)), 0.0, np.array(o["A"], float))
                    wl = A0 @ xs
                    lin_truth = max(lin_truth, true_violation(o["lims"], wl))
                    lin_slack = max([lin_slack] + [0.5 * abs(u - l) for l, u in o["lims"] if np.isfinite(l) and np.isfinite(u) and abs(u - l) <= 1e-9 * max(1.0, abs(l), abs(u))])
                lin_internal = float(L.maxcv(xs))
                scale = max(1.0, abs(lin_truth), float(np.max(np.abs(xs))) * 10)
                if not (abs(lin_internal - lin_truth) <= lin_slack + 1e-12 * scale):
                    specfail.append((objs, f"linear: largest internal violation {lin_internal!r} at x={xs.tolist()} differs from the amount by which A x leaves its limits {lin_truth!r}"))
                # (use the identity matrix trick: evaluate residuals directly from the rows against w per object)
                NL = run_impl_nonlinear(objs)
                c_ub, c_eq = NL(np.zeros(n))
                if not (same_bits(c_ub, cub) and same_bits(c_eq, ceq)):
                    mism.append((objs, "nonlinear", [np.asarray(c_ub).tolist(), np.asarray(c_eq).tolist()], [cub, ceq]))
                internal = float(NL.maxcv(np.zeros(n), c_ub, c_eq))
                direct = max([0.0] + [float(v) for v in np.asarray(c_ub)] + [abs(float(v)) for v in np.asarray(c_eq)])
                truth = max(true_violation(o["lims"], o["w"]) for o in objs)
                slack = max([0.0] + [0.5 * abs(u - l) for o in objs for l, u in o["lims"] if np.isfinite(l) and np.isfinite(u) and abs(u - l) <= 1e-9 * max(1.0, abs(l), abs(u))])
                if not (internal == direct or (internal != internal and direct != direct)):
                    specfail.append((objs, f"maxcv {internal!r} is not the largest internal violation {direct!r}"))
                elif not (abs(internal - truth) <= slack + 1e-15 * max(1.0, abs(truth))):
                    specfail.append((objs, f"largest internal violation {internal!r} differs from the amount by which the values leave their limits {truth!r}"))
            except Exception as exc:  # noqa
                specfail.append((objs, "exception " + type(exc).__name__ + ": " + str(exc)[:100]))
        # dictionary constraints: {"type": "ineq"/"eq", "fun", "args"} must be the constraint lb = 0, ub = inf / 0 on ITS OWN
        # function and arguments, whatever else is in the list
        from cobyqa.main import _get_constraints
        from cobyqa.problem import NonlinearConstraints
        n_dict = 0
        dict_cases = []
        if replay is not None and replay["objs"] and "dicts" in replay["objs"][0]:
            dict_cases = [replay["objs"][0]]
        elif replay is None:
            for _ in range(60 if chk.tier == "quick" else 1500):
                k = int(rng.integers(1, 4))
                n = int(rng.integers(1, 4))
                desc = [{"type": "eq" if rng.random() < 0.4 else "ineq", "C": np.round(rng.normal(size=(int(rng.integers(1, 3)), n)), 3).tolist(),
                         "args": [float(v) for v in np.round(rng.normal(size=int(rng.integers(0, 3))), 3)], "give_args": bool(rng.random() < 0.5)} for _ in range(k)]
                other = bool(rng.random() < 0.4)
                dict_cases.append({"dicts": desc, "x": np.round(rng.normal(size=n), 3).tolist(), "other": other,
                                   "order": [int(i) for i in rng.permutation(k + int(other))]})
        for case in dict_cases:
            n_dict += 1
            what = dict_compare(case)
            if what:
                specfail.append(([case], what))
        # the same statement one level up: inside a Problem the linear rows are rewritten for the variables that are
        # left after removing those fixed by equal bounds and, with scale=True, for the unit box; the violation the
        # solver computes at an internal point must still be the amount by which A x leaves [lb, ub] at the user's point
        n_pb = 0
        pcases = []
        if replay is not None and replay["objs"] and "problem" in replay["objs"][0]:
            pcases = [replay["objs"][0]["problem"]]
        elif replay is None:
            for objs in groups[: (120 if chk.tier == "quick" else 3000)]:
                n = len(objs[0]["A"][0])
                if any(np.isnan(np.array(o["A"], float)).any() for o in objs):
                    continue
                lo = np.round(rng.uniform(-3, -1, n), 2)
                hi = lo + np.round(rng.uniform(1, 4, n), 2)
                fixed = rng.random(n) < 0.35
                if fixed.all():
                    fixed[int(rng.integers(n))] = False
                hi = np.where(fixed, lo, hi)
                pcases.append({"objs": objs, "lo": lo.tolist(), "hi": hi.tolist(), "scale": bool(rng.random() < 0.4),
                               "x0": np.round(rng.uniform(-4, 4, n), 2).tolist(),        # need not agree with the fixed values: x0 is projected
                               "u": rng.uniform(0, 1, n).tolist()})
        for pc in pcases:
            r = problem_level(pc)
            if r is None:
                continue
            n_pb += 1
            if r:
                specfail.append(([{"problem": pc}], r))
        # bounds sanitising
        from cobyqa.problem import BoundConstraints
        nb = 0
        for lb, ub in PATTERNS:
            bc = BoundConstraints(Bounds([lb, -1.0], [ub, 1.0]))
            nb += 1
            if not (bc.xl[0] == (-INF if lb != lb else lb) and bc.xu[0] == (INF if ub != ub else ub)):
                specfail.append(([{"lims": [(lb, ub)], "A": [[1.0]], "w": [0.0], "broadcast": None}], "NaN bound is not treated as no bound"))
    chk.coverage.update({
        "evaluations": len(groups) + len(dict_cases), "distinct_nontrivial": len({repr(g) for g in groups}) + len({repr(c) for c in dict_cases}),
        "rule": "constraint lists of 1-3 objects with 1-4 components; limits drawn from the pattern lattice {(-inf,inf),(-inf,u),(l,inf),(l,u),equal,nextafter-equal,nearly equal,NaN on either or both sides, ±tiny, large} optionally rescaled over 12 decades, scalar-broadcast limits through _get_constraints, NaN coefficients; all pairs of patterns for a two-component object; values on a lattice incl. exactly at the limits. Wrong-sign infinities (ub=-inf, lb=+inf) and crossed limits are contradictory inputs outside the property and are not generated. Distinct by content; every case is non-trivial (at least one limit).",
        "samples": [groups[-1]] if groups else (dict_cases[:1] or pcases[:1]), "limit_patterns_seen": len(patt), "inequality_rows": n_rows, "equality_rows": n_eqs,
        "bound_patterns": nb, "dictionary_constraint_lists": n_dict, "problem_level_cases_with_fixed_variables_or_scaling": n_pb, "correspondence_mismatches": len(mism),
    })
    chk.assumptions += ["theorems are over exact rationals (set of residuals = set of excesses; equality rows within (ub-lb)/2); the Float run of the same definitions is compared exactly with problem.py",
                        "wrong-sign infinite limits and crossed limits are excluded (contradictory inputs)"]
    for objs, what in specfail[:5]:
        chk.violation({"property": "C17", "kind": "spec-fails-on-implementation", "objs": objs, "failure": what,
                       "explain": "build LinearConstraints / NonlinearConstraints from these limit patterns (harness/props/c17.py run_impl_*), values w returned by the constraint functions",
                       "signature": {"failure": what.split(" ")[0]}})
    if not specfail and (not ok or mism):
        rep = {"property": "C17", "kind": "proof-or-correspondence-broken"}
        if not ok:
            rep["broken"] = info.get("problems")
        if mism:
            objs, kind, impl, model = mism[0]
            rep.update({"correspondence": kind + " split vs Model/Constraints.lean", "objs": objs, "implementation": str(impl)[:600], "model": str(model)[:600]})
        chk.violation(rep, no_input=True)
