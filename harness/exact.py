"""Exact rational helpers for the algebra checks (C12-C14): the interpolation system of cobyqa, its
inverse by Gauss-Jordan elimination over Fractions (UNVERIFIED: the Lean driver checks W * Winv = 1),
determinants by Bareiss elimination (used only as an extra cross-check)."""
from fractions import Fraction as Fr
import subprocess
import numpy as np
from common import LEAN


def fr(x):
    return Fr(float(x)) if not isinstance(x, Fr) else x


def kkt(xpt):
    """xpt: list of p offsets (each a list of n Fractions) -> (p+n+1)^2 matrix"""
    p, n = len(xpt), len(xpt[0])
    m = p + n + 1
    W = [[Fr(0)] * m for _ in range(m)]
    for i in range(p):
        for j in range(p):
            W[i][j] = Fr(1, 2) * sum(a * b for a, b in zip(xpt[i], xpt[j])) ** 2
        W[i][p] = W[p][i] = Fr(1)
        for l in range(n):
            W[i][p + 1 + l] = W[p + 1 + l][i] = xpt[i][l]
    return W


def inverse(W):
    m = len(W)
    A = [row[:] + [Fr(int(i == j)) for j in range(m)] for i, row in enumerate(W)]
    for c in range(m):
        piv = next((r for r in range(c, m) if A[r][c] != 0), None)
        if piv is None:
            return None
        A[c], A[piv] = A[piv], A[c]
        d = A[c][c]
        A[c] = [v / d for v in A[c]]
        for r in range(m):
            if r != c and A[r][c] != 0:
                f = A[r][c]
                A[r] = [a - f * b for a, b in zip(A[r], A[c])]
    return [row[m:] for row in A]


def det(W):
    m = len(W)
    A = [row[:] for row in W]
    sign, prev = 1, Fr(1)
    for k in range(m - 1):
        if A[k][k] == 0:
            sw = next((r for r in range(k + 1, m) if A[r][k] != 0), None)
            if sw is None:
                return Fr(0)
            A[k], A[sw] = A[sw], A[k]
            sign = -sign
        for i in range(k + 1, m):
            for j in range(k + 1, m):
                A[i][j] = (A[i][j] * A[k][k] - A[i][k] * A[k][j]) / prev
        prev = A[k][k]
    return sign * A[m - 1][m - 1]


def rs(q):
    q = Fr(q)
    return str(q.numerator) if q.denominator == 1 else f"{q.numerator}/{q.denominator}"


def rl(v):
    return " ".join(rs(x) for x in v)


def parse(tok):
    return Fr(tok)


def driver_alg(lines, timeout=3600):
    inp = "\n".join(lines) + "\n"
    p = subprocess.run(["lake", "env", "lean", "--run", "DriverAlg.lean"], cwd=LEAN, input=inp, capture_output=True, text=True, timeout=timeout)
    ans = [l for l in p.stdout.split("\n")]
    if ans and ans[-1] == "":
        ans.pop()
    ans = [a for a in ans if not a.startswith("DriverAlg.lean") and "warning" not in a and not a.startswith("Note:") and a.strip() != ""]
    if p.returncode != 0 or len(ans) != len(lines):
        raise RuntimeError(f"algebra driver failed rc={p.returncode} answers={len(ans)}/{len(lines)} err={p.stderr[:400]} out={p.stdout[:300]}")
    return ans
