"""Shared plumbing of the checks: Lean build / audit / driver, evidence, verdicts, findings."""
import sys as _sys
if hasattr(_sys, "set_int_max_str_digits"):
    _sys.set_int_max_str_digits(0)      # the exact drivers print rationals with thousands of digits

import hashlib
import json
import os
import re
import struct
import subprocess
import sys
import time

ROOT = os.path.dirname(os.path.dirname(os.path.abspath(__file__)))
LEAN = os.path.join(ROOT, "lean")
EVID = os.path.join(ROOT, "evidence")
REPLAY = os.path.join(EVID, "replay")
REPO = os.environ.get("COBYQA_REPO", "/repo")
ALLOWED_AXIOMS = {"propext", "Classical.choice", "Quot.sound"}
FORBIDDEN = re.compile(r"\bsorry\b|\badmit\b|\baxiom\b|native_decide|bv_decide|implemented_by|\bunsafe\b|maxHeartbeats 0")

TRUSTED_BASE = [
    "Lean 4.33 kernel; axioms propext, Classical.choice, Quot.sound only (checked by #print axioms on every theorem of the property file)",
    "the Python correspondence harness, its generators and recorder (ordinary test code: they bound what the tie between model and /repo has seen)",
    "lean/Driver.lean and lean/DriverAlg.lean (parsing of the line protocol, binary64 arithmetic of the merit value, verdict strings): executed, not proved; scanned for the same forbidden constructs",
    "Lean's Float (+,-,*,/,sqrt) = hardware binary64 = numpy float64 scalar arithmetic; binary64 order = order of the integer keys (Model/Value.lean keyOfBits)",
    "in the models of the five subproblem solvers np.sqrt, _alpha_tr, the floor of the sample count and the QR factorisation of the working set are oracles: the theorems state what they assume of them, DriverAlg runs the models with exactly checked proposals (which provably meet the assumptions: checked_spec, checkedProj_ok, checkedProjN_ok, checked_params_ok, checkedSqrtUp_up, checkedSqrt_pos) and, for the loops of Alg/Ctcg, Alg/Ntcg*, Alg/CtcgImprove, pass by pass on re-tabulated states (driver code)",
]


# ---------------------------------------------------------------- floats
def f2b(x):
    return struct.unpack("<Q", struct.pack("<d", float(x)))[0]


def b2f(b):
    return struct.unpack("<d", struct.pack("<Q", int(b)))[0]


# ---------------------------------------------------------------- lean
def run(cmd, cwd=None, timeout=3600, inp=None):
    p = subprocess.run(cmd, cwd=cwd, input=inp, capture_output=True, text=True, timeout=timeout)
    return p.returncode, p.stdout, p.stderr


def lean_build(targets):
    """lake build of the given module targets; returns (ok, log)."""
    rc, out, err = run(["lake", "build"] + list(targets), cwd=LEAN)
    return rc == 0, out + err


def theorem_names(path):
    """(namespace-qualified) names of the theorems declared in a Props file."""
    names, ns = [], []
    for line in open(path):
        m = re.match(r"\s*namespace\s+(\S+)", line)
        if m:
            ns.append(m.group(1))
        m = re.match(r"\s*end\s+(\S+)", line)
        if m and ns and ns[-1] == m.group(1):
            ns.pop()
        m = re.match(r"\s*(?:@\[[^\]]*\]\s*)?(?:private\s+|protected\s+)?theorem\s+([^\s:({\[]+)", line)
        if m:
            names.append(".".join(ns + [m.group(1)]))
    return names


def strip_comments(src):
    src = re.sub(r"/-.*?-/", "", src, flags=re.S)
    return re.sub(r"--.*", "", src)


def audit(prop_modules):
    """Elaborate `#print axioms` for every theorem of the given Props modules and grep the Lean
    sources for forbidden constructs. Returns dict(obligations, discharged, problems, theorems)."""
    problems = []
    names = []
    for mod in prop_modules:
        path = os.path.join(LEAN, mod.replace(".", "/") + ".lean")
        names += [(mod, n) for n in theorem_names(path)]
    # forbidden constructs anywhere in the library (comments stripped)
    sources = [os.path.join(dp, fn) for dp, _, files in os.walk(os.path.join(LEAN, "CobyqaVerif")) for fn in files if fn.endswith(".lean")]
    sources += [os.path.join(LEAN, fn) for fn in ("Driver.lean", "DriverAlg.lean", "CobyqaVerif.lean") if os.path.exists(os.path.join(LEAN, fn))]
    for path_ in sources:
        for fn in [os.path.basename(path_)]:
            if True:
                src = strip_comments(open(path_).read())
                for ln in src.splitlines():
                    if FORBIDDEN.search(ln):
                        problems.append(f"forbidden construct in {fn}: {ln.strip()[:80]}")
    os.makedirs(os.path.join(LEAN, ".lake", "audit"), exist_ok=True)
    tag = hashlib.sha1("".join(prop_modules).encode()).hexdigest()[:8]
    apath = os.path.join(LEAN, ".lake", "audit", f"Audit_{tag}.lean")
    with open(apath, "w") as f:
        for mod in prop_modules:
            f.write(f"import {mod}\n")
        for _, n in names:
            f.write(f"#print axioms {n}\n")
    rc, out, err = run(["lake", "env", "lean", apath], cwd=LEAN)
    text = out + err
    discharged = 0
    per = {}
    # output: "'Cobyqa.foo' depends on axioms: [propext, ...]" or "... does not depend on any axioms"
    for m in re.finditer(r"'([^']+)' (depends on axioms: \[([^\]]*)\]|does not depend on any axioms)", text, flags=re.S):
        name = m.group(1)
        axs = set(a.strip() for a in (m.group(3) or "").replace("\n", " ").split(",") if a.strip())
        per[name] = sorted(axs)
        if axs <= ALLOWED_AXIOMS:
            discharged += 1
        else:
            problems.append(f"theorem {name} depends on {sorted(axs - ALLOWED_AXIOMS)}")
    for _, n in names:
        if n not in per:
            problems.append(f"theorem {n}: no #print axioms output ({text.strip()[:200]})")
    if rc != 0:
        problems.append("audit file did not elaborate: " + text.strip()[:300])
    return {"obligations": len(names), "discharged": discharged, "problems": problems,
            "theorems": [n for _, n in names], "axioms": per}


def driver(lines, timeout=3600):
    """Run the Lean model driver on request lines; returns the answer lines."""
    inp = "\n".join(lines) + "\n"
    rc, out, err = run(["lake", "env", "lean", "--run", "Driver.lean"], cwd=LEAN, inp=inp, timeout=timeout)
    ans = out.split("\n")
    if ans and ans[-1] == "":
        ans.pop()
    if rc != 0 or len(ans) != len(lines):
        raise RuntimeError(f"driver failed rc={rc} answers={len(ans)}/{len(lines)} err={err[:500]}")
    return ans


# ---------------------------------------------------------------- findings
def load_findings():
    p = os.path.join(ROOT, "KNOWN_FINDINGS.json")
    return json.load(open(p)) if os.path.exists(p) else {"known": [], "fixed": []}


def match_known(prop, signature):
    """signature: dict describing the failure; a known entry matches when every key of its
    'signature' equals the corresponding key here."""
    for k in load_findings().get("known", []):
        if k.get("property") != prop:
            continue
        sig = k.get("signature", {})
        if sig and all(signature.get(a) == b for a, b in sig.items()):
            return k
    return None


# ---------------------------------------------------------------- verdict
class Check:
    def __init__(self, prop, level, tier, seed):
        self.prop, self.level, self.tier, self.seed = prop, level, tier, seed
        self.t0 = time.time()
        self.coverage = {}
        self.assumptions = []
        self.violations = []      # (replay dict, suffix)
        self.known = []
        self.notes = []

    def violation(self, replay, no_input=False):
        """replay: JSON-serialisable description (input + what failed)."""
        sig = replay.get("signature", {})
        k = match_known(self.prop, sig)
        if k is not None and not no_input:
            self.known.append((k, replay))
            return
        os.makedirs(REPLAY, exist_ok=True)
        h = hashlib.sha1(json.dumps(replay, sort_keys=True, default=str).encode()).hexdigest()[:12]
        path = os.path.join(REPLAY, f"{self.prop}-{h}.json")
        with open(path, "w") as f:
            json.dump(replay, f, indent=1, default=str)
        self.violations.append((path, no_input))

    def finish(self):
        os.makedirs(EVID, exist_ok=True)
        ev = {
            "property_id": self.prop,
            "tier": self.tier,
            "seed": self.seed,
            "level": self.level,
            "coverage": self.coverage,
            "assumptions": self.assumptions,
            "wall_s": round(time.time() - self.t0, 2),
            "violations": len(self.violations),
        }
        if self.notes:
            ev["coverage"]["notes"] = self.notes
        with open(os.path.join(EVID, f"{self.prop}.json"), "w") as f:
            json.dump(ev, f, indent=1, default=str)
        seen = set()
        for k, _ in self.known:
            if k["id"] not in seen:
                seen.add(k["id"])
                print(f"KNOWN-FINDING: property={self.prop} {k['what']}")
        for path, no_input in self.violations[:20]:
            rel = os.path.relpath(path, ROOT)
            print(f"VIOLATION property={self.prop} replay={rel}" + (" no-failing-input-found" if no_input else ""))
        print(f"[{self.prop}] tier={self.tier} seed={self.seed} level={self.level} "
              f"violations={len(self.violations)} known={len(self.known)} wall={ev['wall_s']}s")
        sys.stdout.flush()
        return 1 if self.violations else 0


def proof_stage(chk, modules, extra_targets=()):
    """Build + audit the property's theorems.  Returns (ok, info).  On failure the caller runs its
    failing-input search; if that finds nothing it reports no-failing-input-found."""
    info = {}
    try:
        import translate
        info["regenerated"] = translate.generate()
    except Exception as exc:  # TranslationError or a source that no longer parses
        info["problems"] = [f"translator could not regenerate Gen/*.lean from /repo: {type(exc).__name__}: {exc}"]
        chk.coverage.update({"obligations": 0, "discharged": 0})
        return False, info
    ok, log = lean_build(list(modules) + list(extra_targets))
    info["build_ok"] = ok
    if not ok:
        info["problems"] = ["lake build failed: " + "\n".join(l for l in log.splitlines() if "error" in l)[:1500]]
        chk.coverage.update({"obligations": 0, "discharged": 0})
        return False, info
    a = audit(modules)
    info.update(a)
    chk.coverage.update({
        "obligations": a["obligations"], "discharged": a["discharged"],
        "checker_cmd": "cd lean && lake build " + " ".join(modules) + " && lake env lean .lake/audit/Audit_*.lean   # #print axioms per theorem",
        "trusted_base": list(TRUSTED_BASE),
        "theorems": a["theorems"],
    })
    ok = not a["problems"] and a["obligations"] == a["discharged"] and a["obligations"] > 0
    if ok and chk.tier == "thorough":
        # independent re-check of the compiled theorems by the toolchain's leanchecker (replays every declaration
        # of the property's modules through the kernel, outside the elaborator)
        try:
            r = subprocess.run(["lake", "env", "leanchecker"] + list(modules), cwd=LEAN, capture_output=True, text=True, timeout=1800)
            chk.coverage["leanchecker"] = {"modules": list(modules), "exit": r.returncode, "output_tail": (r.stdout + r.stderr)[-300:]}
            if r.returncode != 0:
                info["problems"] = ["leanchecker rejected the compiled modules: " + (r.stdout + r.stderr)[-600:]]
                ok = False
        except Exception as exc:  # noqa
            chk.coverage["leanchecker"] = {"error": type(exc).__name__ + ": " + str(exc)[:200]}
    return ok, info
