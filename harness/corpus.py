"""Minimised past failures, replayed first on every run."""
import glob, json, os
from common import ROOT


def load(prop, shared=False):
    out = []
    for d in (("shared", prop) if shared else (prop,)):
        for p in sorted(glob.glob(os.path.join(ROOT, "corpus", d, "*.json"))):
            out.append(json.load(open(p)))
    return out
