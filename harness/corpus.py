"""Minimised past failures, replayed first on every run."""
import glob, json, os
from common import ROOT


def load(prop):
    out = []
    for p in sorted(glob.glob(os.path.join(ROOT, "corpus", prop, "*.json"))):
        out.append(json.load(open(p)))
    return out
