#!/usr/bin/env python3
"""Markdown table of the seeded changes under /verif/seeded and of the checks that detect them (from meta.json)."""
import glob, json, os
rows = []
for d in sorted(glob.glob(os.path.join(os.path.dirname(os.path.abspath(__file__)), "..", "seeded", "*"))):
    m = json.load(open(os.path.join(d, "meta.json")))
    w = m.get("what_was_run", {})
    det = []
    for k, v in w.get("checks", {}).items():
        if v["with_failing_input"]:
            det.append(f"{k} ({v['with_failing_input']} failing inputs)")
        elif v["violations"]:
            det.append(f"{k} (no-failing-input-found)")
        else:
            det.append(f"{k}: not detected")
    summ = " ".join(m.get("summary", "").split())
    if len(summ) > 230:
        summ = summ[:227] + "..."
    rows.append(f"| {os.path.basename(d)} | {summ} | {'; '.join(det)} |")
print("| seed | change | checks run against it (quick tier) |\n|---|---|---|")
print("\n".join(rows))
