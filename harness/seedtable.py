#!/usr/bin/env python3
"""Markdown table of the seeded changes under /verif/seeded and of the checks that detect them (from meta.json)."""
import glob, json, os
rows = []
missed = []
for d in sorted(glob.glob(os.path.join(os.path.dirname(os.path.abspath(__file__)), "..", "seeded", "*"))):
    sid = os.path.basename(d)
    prop = sid.split("-")[0]
    m = json.load(open(os.path.join(d, "meta.json")))
    w = m.get("what_was_run", {})

    def fmt(v):
        if v["with_failing_input"]:
            r = f"{v['with_failing_input']} failing inputs"
            if v.get("replay_on_patched_exit") is not None:
                r += f", replay {v['replay_on_patched_exit']}/{v['replay_on_clean_exit']}"
            return r
        return "no-failing-input-found" if v["violations"] else "not detected"
    own = w.get("checks", {}).get(prop)
    if m.get("superseded_by"):
        summ = " ".join(m.get("summary", "").split())
        rows.append(f"| {sid} | {summ[:197] + '...' if len(summ) > 200 else summ} | no longer breaks the property on the repaired tree: {m['superseded_by'][:120]}... | |")
        continue
    others = [f"{k}: {fmt(v)}" for k, v in w.get("checks", {}).items() if k != prop]
    if own is None or not own["with_failing_input"]:
        missed.append(sid)
    summ = " ".join(m.get("summary", "").split())
    if len(summ) > 200:
        summ = summ[:197] + "..."
    rows.append(f"| {sid} | {summ} | {fmt(own) if own else 'not run'} | {'; '.join(others)} |")
print("| seed | change | check of its own property (quick tier; replay exit on patched/clean tree) | other checks run against it |\n|---|---|---|---|")
print("\n".join(rows))
print()
print(f"{len(rows)} seeded changes; not detected with a failing input by the check of their own property: {', '.join(missed) if missed else 'none'}")
