"""Recorder of real `cobyqa.minimize` runs: monkey-patches cobyqa classes inside this process
only (nothing in /repo is edited) and turns one run into the event trace the Lean skeleton
(`Model/Run.lean`) replays."""
import contextlib
import inspect
import signal
import warnings

import numpy as np

from common import f2b, b2f

NOF = 2 ** 64  # "no objective value given to the callback" (positional xk signature)


class RunTimeout(Exception):
    pass


@contextlib.contextmanager
def alarm(seconds):
    def handler(signum, frame):
        raise RunTimeout()
    old = signal.signal(signal.SIGALRM, handler)
    signal.alarm(seconds)
    try:
        yield
    finally:
        signal.alarm(0)
        signal.signal(signal.SIGALRM, old)


def expected_user_point(spec, x):
    """Independent re-statement of Problem.build_x from the USER's data (bounds, scale): the point,
    in the user's variables, that corresponds to the internal point x."""
    lb, ub = spec["xl"], spec["xu"]
    fixed, fixed_val, factor, shift = spec["fixed"], spec["fixed_val"], spec["factor"], spec["shift"]
    full = np.empty(lb.size)
    full[fixed] = fixed_val
    full[~fixed] = np.asarray(x, float) * factor + shift
    if spec["bounds_ok"]:
        full = np.minimum(np.maximum(full, lb), ub)
    return full


def reduce_spec(x0, bounds, scale):
    """fixed variables / scaling data computed from the user's statement (mirror of Model/Reduce.lean)."""
    from scipy.optimize import Bounds
    x0 = np.atleast_1d(np.asarray(x0, float))
    n = x0.size
    if bounds is None:
        lb, ub = np.full(n, -np.inf), np.full(n, np.inf)
    elif isinstance(bounds, Bounds):
        lb, ub = np.array(np.broadcast_to(bounds.lb, n), float), np.array(np.broadcast_to(bounds.ub, n), float)
    else:
        b = np.asarray(bounds, float)
        lb, ub = b[:, 0].copy(), b[:, 1].copy()
    lb = np.where(np.isnan(lb), -np.inf, lb)
    ub = np.where(np.isnan(ub), np.inf, ub)
    eps = np.finfo(float).eps
    weight = max(np.max(np.abs(lb[np.isfinite(lb)]), initial=1.0), np.max(np.abs(ub[np.isfinite(ub)]), initial=1.0))
    tol = 10.0 * eps * max(n, 1.0) * weight
    with np.errstate(invalid="ignore"):
        fixed = (lb <= ub) & (np.abs(lb - ub) < tol)
    fixed_val = np.minimum(np.maximum(0.5 * (lb[fixed] + ub[fixed]), lb[fixed]), ub[fixed])
    bounds_ok = bool(np.all(lb <= ub) and np.all(lb < np.inf) and np.all(ub > -np.inf))
    rl, ru = lb[~fixed], ub[~fixed]
    red_ok = bool(np.all(rl <= ru) and np.all(rl < np.inf) and np.all(ru > -np.inf))
    do_scale = bool(scale and red_ok and np.all(np.isfinite(rl)) and np.all(np.isfinite(ru)))
    if do_scale:
        factor, shift = 0.5 * (ru - rl), 0.5 * (ru + rl)
    else:
        factor, shift = np.ones(rl.size), np.zeros(rl.size)
    return {"xl": lb, "xu": ub, "fixed": fixed, "fixed_val": fixed_val, "factor": factor, "shift": shift,
            "bounds_ok": bounds_ok, "red_ok": red_ok, "nfree": int(rl.size), "scaled": do_scale}


class Recorder:
    """Records one run.  Use `record(...)`."""

    def __init__(self):
        self.events = []
        self.pids = {}
        self.points = []
        self.framework = None
        self.options = None
        self.internal_points = []   # internal argument of every Problem.__call__
        self.user_calls = []        # (kind, array) of every user-function call
        self.returns = []           # (kind, j, pid, value) returned by every objective / constraint call
        self.extra = {}

    def pid(self, x):
        key = tuple(f2b(v) for v in np.atleast_1d(np.asarray(x, float)))
        if key not in self.pids:
            self.pids[key] = len(self.pids)
            self.points.append(np.array(np.atleast_1d(x), float))
        return self.pids[key]

    def ev(self, *toks):
        self.events.append(" ".join(str(t) for t in toks))


def _kind(exc):
    from cobyqa.utils import MaxEvalError, TargetSuccess, CallbackSuccess, FeasibleSuccess
    if isinstance(exc, TargetSuccess):
        return "target"
    if isinstance(exc, FeasibleSuccess):
        return "feasible"
    if isinstance(exc, CallbackSuccess):
        return "callback"
    if isinstance(exc, MaxEvalError):
        return "maxeval"
    if isinstance(exc, np.linalg.LinAlgError):
        return "linalg"
    return None


@contextlib.contextmanager
def patched(rec, spec, inject=None):
    """Install the recorder.  `inject`: optional dict {method name: call index} making that
    method raise LinAlgError at its k-th call (fault injection for the LinAlgError handlers)."""
    import cobyqa.main as M
    import cobyqa.problem as P
    import cobyqa.framework as F
    import cobyqa.models as MD
    saved = []
    inject = dict(inject or {})
    counts = {}

    def patch(obj, name, new):
        saved.append((obj, name, obj.__dict__[name] if isinstance(obj, type) else getattr(obj, name)))
        setattr(obj, name, new)

    state = {"in_eval": False, "f": None, "v_done": False}

    # --- Problem.__call__ bracket
    orig_call = P.Problem.__call__

    def call(self, x, penalty=0.0):
        x = np.asarray(x, dtype=float)
        rec.internal_points.append(np.array(x, float))
        up = expected_user_point(spec, x) if x.size == spec["nfree"] else np.asarray(x, float)
        rec.ev("evalBegin", f2b(penalty), rec.pid(up))
        state.update(in_eval=True, f=None, v_done=False)
        rec.extra.pop("obj_raw", None)
        try:
            out = orig_call(self, x, penalty)
        except BaseException as exc:
            state["in_eval"] = False
            if _kind(exc) == "callback":
                rec.ev("evalRaise")
            else:
                rec.ev("pyexc", type(exc).__name__)
            raise
        state["in_eval"] = False
        rec.ev("evalEnd", f2b(out[0]))
        rec.extra.setdefault("returned", []).append((float(out[0]), np.array(out[1], float), np.array(out[2], float)))
        return out
    patch(P.Problem, "__call__", call)

    orig_obj = P.ObjectiveFunction.__call__

    def objcall(self, x):
        f = orig_obj(self, x)
        state["f"] = f
        return f
    patch(P.ObjectiveFunction, "__call__", objcall)

    orig_maxcv = P.Problem.maxcv

    def maxcv(self, x, cub_val=None, ceq_val=None):
        v = orig_maxcv(self, x, cub_val, ceq_val)
        if state["in_eval"] and not state["v_done"]:
            state["v_done"] = True
            # the objective value of this evaluation is what the USER's function returned (spied in `record`), not what
            # the library's wrapper made of it: the history must hold the raw values
            f = state["f"]
            raw = rec.extra.pop("obj_raw", None)
            if raw is not None:
                try:
                    f = float(np.squeeze(raw))
                except Exception:  # noqa
                    pass
            rec.ev("val", f2b(f), f2b(v))
        return v
    patch(P.Problem, "maxcv", maxcv)

    # --- _eval
    orig_eval = M._eval

    def _eval(pb, framework, step, options):
        try:
            return orig_eval(pb, framework, step, options)
        except Exception as exc:
            k = _kind(exc)
            rec.ev("raise", k) if k else rec.ev("pyexc", type(exc).__name__)
            raise
    patch(M, "_eval", _eval)

    # --- TrustRegion
    orig_init = F.TrustRegion.__init__

    def init(self, pb, options, constants):
        rec.ev("sampleBegin")
        rec.framework, rec.options = self, options
        try:
            orig_init(self, pb, options, constants)
        except Exception as exc:
            k = _kind(exc)
            rec.ev("raise", k) if k else rec.ev("pyexc", type(exc).__name__)
            raise
        rec.ev("sampleEnd")
    patch(F.TrustRegion, "__init__", init)

    def wrap_marker(cls, name, marker):
        orig = cls.__dict__[name]

        def w(self, *a, **k):
            if marker:
                rec.ev(marker)
            counts[name] = counts.get(name, 0) + 1
            try:
                if inject.get(name) == counts[name]:
                    raise np.linalg.LinAlgError("injected by the harness")
                return orig(self, *a, **k)
            except np.linalg.LinAlgError:
                rec.ev("raise", "linalg")
                raise
        patch(cls, name, w)
    wrap_marker(F.TrustRegion, "get_trust_region_step", "iter")
    wrap_marker(F.TrustRegion, "get_second_order_correction_step", "soc")
    wrap_marker(F.TrustRegion, "get_geometry_step", "geom")
    wrap_marker(F.TrustRegion, "get_index_to_remove", None)
    wrap_marker(MD.Models, "update_interpolation", None)
    wrap_marker(MD.Models, "reset_models", None)
    wrap_marker(MD.Models, "fun_alt_grad", None)

    # --- _build_result
    orig_build = M._build_result

    def build(pb, penalty, success, status, n_iter, options):
        rec.ev("buildResult", f2b(penalty), int(bool(success)), status.value, n_iter)
        rec.extra["pb"] = pb
        rec.extra["final_options"] = options
        return orig_build(pb, penalty, success, status, n_iter, options)
    patch(M, "_build_result", build)

    try:
        yield
    finally:
        for obj, name, old in reversed(saved):
            setattr(obj, name, old)


def result_event(rec, res):
    fw = rec.framework
    opts = rec.extra.get("final_options") or {}
    nanb = f2b(float("nan"))
    resol = f2b(fw.resolution) if fw is not None and hasattr(fw, "_resolution") else nanb
    rho = f2b(opts["radius_final"]) if "radius_final" in opts else nanb
    toks = ["result", int(res.status), int(bool(res.success)), int(res.nfev), int(res.nit), rec.pid(res.x),
            f2b(res.fun), f2b(res.maxcv), resol, rho]
    fh = list(getattr(res, "fun_history", []))
    ch = list(getattr(res, "maxcv_history", []))
    toks += [len(fh)] + [f2b(x) for x in fh] + [len(ch)] + [f2b(x) for x in ch]
    rec.ev(*toks)


def make_callback(rec, kind, stop_at, overwrite=False):
    """User callbacks of the various shapes; every call is logged into the trace.  Kinds whose name
    starts with `ir` ask for the keyword convention (parameter set == {intermediate_result}), the
    others for the positional one."""
    n = [0]

    def log(arg, want_result):
        n[0] += 1
        is_result = hasattr(arg, "x") and hasattr(arg, "fun")
        if is_result != want_result:
            rec.extra.setdefault("convention_errors", []).append(
                {"kind": kind, "call": n[0], "received": type(arg).__name__, "expected": "OptimizeResult" if want_result else "ndarray"})
        x, f = (arg.x, arg.fun) if is_result else (arg, None)
        rec.ev("cb", rec.pid(x), NOF if f is None else f2b(f))
        rec.user_calls.append(("cb", np.array(x, float)))
        # the array is the user's to keep: remember the very object and what it held
        rec.extra.setdefault("cb_kept", []).append((x, np.array(x, float), n[0]))
        if overwrite:
            x[...] = 1e300
            rec.extra["cb_kept"][-1] = (x, np.array(x, float), n[0])
        if stop_at is not None and n[0] == stop_at:
            rec.ev("cbStop")
            raise StopIteration
    if kind == "xk":
        def cb(xk):
            log(xk, False)
        return cb
    if kind == "ir":
        def cb(intermediate_result):
            log(intermediate_result, True)
        return cb
    if kind == "ir_kwonly":
        def cb(*, intermediate_result):
            log(intermediate_result, True)
        return cb
    if kind == "lambda":
        return lambda xk: log(xk, False)
    if kind == "ir_lambda":
        return lambda intermediate_result: log(intermediate_result, True)
    if kind == "object":
        class CB:
            def __call__(self, intermediate_result):
                log(intermediate_result, True)
        return CB()
    if kind == "object_xk":
        class CB:
            def __call__(self, x):
                log(x, False)
        return CB()
    if kind == "ir_method":
        class H:
            def handler(self, intermediate_result):
                log(intermediate_result, True)
        return H().handler
    if kind == "method_xk":
        class H:
            def handler(self, xk):
                log(xk, False)
        return H().handler
    if kind == "partial":
        import functools

        def cb(extra, xk):
            log(xk, False)
        return functools.partial(cb, 7)
    if kind == "ir_partial":
        import functools

        def cb(extra, intermediate_result):
            log(intermediate_result, True)
        return functools.partial(cb, 7)
    raise ValueError(kind)


def record(problem, timeout=120, inject=None):
    """problem: dict(fun, x0, bounds, constraints (list), cons_funs (list of user nonlinear functions to spy),
    callback_kind, stop_at, overwrite, options, constants).  Returns dict(trace line pieces, result...)."""
    from cobyqa import minimize
    from scipy.optimize import NonlinearConstraint
    rec = Recorder()
    options = dict(problem.get("options") or {})
    spec = reduce_spec(problem["x0"], problem.get("bounds"), bool(options.get("scale", False)))
    fun = problem.get("fun")
    ufun = None
    if fun is not None:
        def ufun(x, *args):
            rec.ev("obj", rec.pid(x))
            rec.user_calls.append(("obj", np.array(x, float)))
            v = fun(x, *args)
            rec.extra["obj_raw"] = v
            rec.returns.append(("obj", None, rec.pid(x), v, len(rec.events)))
            return v
    cons = []
    j = 0
    for c in problem.get("constraints") or []:
        if isinstance(c, NonlinearConstraint):
            def spy(x, _f=c.fun, _j=j):
                rec.ev("con", _j, rec.pid(x))
                rec.user_calls.append(("con", np.array(x, float)))
                v = _f(x)
                rec.returns.append(("con", _j, rec.pid(x), np.array(v, float), len(rec.events)))
                return v
            cons.append(NonlinearConstraint(spy, c.lb, c.ub))
            j += 1
        elif isinstance(c, dict):
            def spy(x, *a, _f=c["fun"], _j=j):
                rec.ev("con", _j, rec.pid(x))
                rec.user_calls.append(("con", np.array(x, float)))
                v = _f(x, *a)
                rec.returns.append(("con", _j, rec.pid(x), np.array(v, float), len(rec.events)))
                return v
            d = dict(c)
            d["fun"] = spy
            cons.append(d)
            j += 1
        else:
            cons.append(c)
    ncon = j
    cbk = problem.get("callback_kind")
    callback = make_callback(rec, cbk, problem.get("stop_at"), problem.get("overwrite", False)) if cbk else None
    out = {"rec": rec, "spec": spec, "ncon": ncon, "exception": None, "res": None}
    import io
    with warnings.catch_warnings(), contextlib.redirect_stdout(io.StringIO()):
        warnings.simplefilter("ignore")
        with patched(rec, spec, inject):
            try:
                with alarm(timeout):
                    # the same problem handed over in the different forms the interface accepts
                    api = problem.get("api") or {}
                    x0_arg = problem["x0"]
                    if api.get("x0") == "tuple":
                        x0_arg = tuple(x0_arg)
                    elif api.get("x0") == "array":
                        x0_arg = np.array(x0_arg, float)
                    elif api.get("x0") == "column":
                        x0_arg = np.array(x0_arg, float).reshape(-1, 1)
                    cons_arg = cons
                    if api.get("cons") == "tuple":
                        cons_arg = tuple(cons)
                    elif api.get("cons") == "single" and len(cons) == 1:
                        cons_arg = cons[0]
                    opts_arg = dict(options)
                    if api.get("maxfev_float") and "maxfev" in opts_arg:
                        opts_arg["maxfev"] = float(opts_arg["maxfev"])
                    res = minimize(ufun, x0_arg, args=problem.get("args", ()), bounds=problem.get("bounds"),
                                   constraints=cons_arg, callback=callback, options=opts_arg, **(problem.get("constants") or {}))
                out["res"] = res
                result_event(rec, res)
            except RunTimeout:
                out["exception"] = "timeout"
            except Exception as exc:  # noqa
                out["exception"] = type(exc).__name__ + ": " + str(exc)[:200]
    out["options"] = rec.extra.get("final_options") or options
    out["cons_in"] = problem.get("constraints") or []
    return out


def true_violation(out, x, pid, upto=None):
    """true maximum violation of the constraints AS THE USER STATED THEM at the user point `x` (point id `pid`): bounds
    and linear constraints evaluated in user space, nonlinear ones from the values the user functions returned at that
    point.  Returns (violation or NaN, scale of the linear terms, half-width allowance of near-equalities, complete)"""
    from scipy.optimize import LinearConstraint
    rec = out["rec"]
    # `upto`: only what the user functions had returned by that position of the event list (a function of the call count
    # rather than of x may return something else at the same point later on)
    calls = [r for r in rec.returns if r[2] == pid and (upto is None or r[4] <= upto)] if pid is not None else []
    complete = True
    viol, scale = 0.0, 1.0
    spec = out["spec"]
    lb, ub = spec["xl"], spec["xu"]
    with np.errstate(invalid="ignore"):
        viol = max(viol, float(np.max(np.where(np.isfinite(lb), lb - x, 0.0), initial=0.0)), float(np.max(np.where(np.isfinite(ub), x - ub, 0.0), initial=0.0)))
    j = 0
    nan_seen = False
    slack = 0.0
    for c in out["cons_in"]:
        if isinstance(c, LinearConstraint):
            A = np.where(np.isnan(np.atleast_2d(np.array(c.A, float))), 0.0, np.atleast_2d(np.array(c.A, float)))
            w = A @ x
            l = np.broadcast_to(np.array(c.lb, float), w.shape)
            u = np.broadcast_to(np.array(c.ub, float), w.shape)
            scale = max(scale, float(np.max(np.abs(A) @ np.abs(x), initial=0.0)), float(np.max(np.abs(l[np.isfinite(l)]), initial=0.0)), float(np.max(np.abs(u[np.isfinite(u)]), initial=0.0)))
        else:
            vals = [r[3] for r in calls if r[0] == "con" and r[1] == j]
            if isinstance(c, dict):
                l, u = 0.0, (0.0 if c["type"] == "eq" else np.inf)
            else:
                l, u = c.lb, c.ub
            j += 1
            if not vals:
                complete = False
                continue
            w = np.atleast_1d(np.array(vals[-1], float))
            l = np.broadcast_to(np.array(l, float), w.shape)
            u = np.broadcast_to(np.array(u, float), w.shape)
        # an undefined value matters only where the user gave a limit (a component without limits cannot be violated)
        if np.any(np.isnan(w) & (np.isfinite(l) | np.isfinite(u))):
            nan_seen = True
        both = np.isfinite(l) & np.isfinite(u)
        slack = max(slack, float(np.max(0.5 * np.abs(u - l)[both & (np.abs(u - l) <= 1e-9 * np.maximum(1.0, np.maximum(np.abs(l), np.abs(u))))], initial=0.0)))
        with np.errstate(invalid="ignore"):
            viol = max(viol, float(np.max(np.where(np.isfinite(l), l - w, 0.0), initial=0.0)), float(np.max(np.where(np.isfinite(u), w - u, 0.0), initial=0.0)))
    if nan_seen:
        viol = float("nan")
    return viol, scale, slack, complete


def truth_at_result(out, problem):
    """Independent statement of C02 for one finished run: is res.x an evaluated point, is res.fun the raw value
    returned there, and what is the true maximum violation at res.x.  Returns dict(evaluated, fun_ok, true_maxcv, ...).
    A point may be evaluated more than once, and a user function whose value depends on the call count may return
    different values there: the result must be explained by ONE of the evaluations made at res.x (the one whose values
    come closest is reported)."""
    rec, res = out["rec"], out["res"]
    x = np.array(res.x, float)
    key = tuple(f2b(v) for v in x)
    pid = rec.pids.get(key)
    # one candidate per evaluation made at that point: what the user functions had returned by the end of it
    ends = []
    cur = None
    for pos, e in enumerate(rec.events):
        if e.startswith("evalBegin "):
            cur = int(e.split()[2])
        elif (e.startswith("evalEnd") or e.startswith("evalRaise") or e.startswith("pyexc")) and cur is not None:
            if cur == pid:
                ends.append(pos + 1)
            cur = None
    if cur is not None and cur == pid:
        ends.append(len(rec.events))
    cands = []
    for upto in (ends or [None]):
        calls = [r for r in rec.returns if r[2] == pid and (upto is None or r[4] <= upto)] if pid is not None else []
        evaluated = pid is not None and bool(ends)
        fun_ok = None
        if problem.get("fun") is not None:
            fvals = [r[3] for r in calls if r[0] == "obj"]
            evaluated = evaluated and bool(fvals)
            last = fvals[-1:] if upto is not None else fvals
            fun_ok = any(f2b(float(np.squeeze(v))) == f2b(res.fun) or (float(np.squeeze(v)) != float(np.squeeze(v)) and res.fun != res.fun) for v in last)
        viol, scale, slack, complete = true_violation(out, x, pid, upto=upto)
        cands.append({"evaluated": bool(evaluated and complete), "fun_ok": fun_ok, "true_maxcv": viol, "lin_scale": scale, "eq_slack": slack,
                      "maxcv": float(res.maxcv), "fun": float(res.fun), "evaluations_at_the_point": len(ends)})

    def badness(c):
        tv, mv = c["true_maxcv"], c["maxcv"]
        gap = 0.0 if (tv != tv and mv != mv) else float("inf") if (tv != tv or mv != mv) else abs(tv - mv)
        return (0 if c["fun_ok"] in (True, None) else 1, gap)
    return min(cands, key=badness)


def truth_all(out, problem):
    """the same independent recomputation at EVERY evaluation: the violation the code recorded for evaluation k (the value
    that enters the filter, the history and the stopping tests) against the true violation at the user point of that
    evaluation.  Returns dict(checked, bad: first disagreement or None)."""
    rec = out["rec"]
    eps = float(np.finfo(float).eps)
    checked, bad = 0, None
    upid = None
    k = -1
    for pos, e in enumerate(rec.events):
        if e.startswith("evalBegin "):
            upid = int(e.split()[2])
            k += 1
        elif e.startswith("val ") and upid is not None:
            v = b2f(int(e.split()[2]))
            x = rec.points[upid]
            tv, scale, slack, complete = true_violation(out, x, upid, upto=pos + 1)
            if not complete:
                continue
            checked += 1
            if tv != tv or v != v:
                ok = (tv != tv) == (v != v)
            else:
                ok = abs(v - tv) <= 64 * eps * scale + slack or v == tv
            if not ok and bad is None:
                bad = {"evaluation": k, "recorded": v, "true": tv, "x": [float(t) for t in x]}
    return {"checked": checked, "bad": bad}


def cfg_line(out, problem):
    """`run ...` header for the Lean driver."""
    import sys
    o = out["options"]
    spec = out["spec"]
    opts_in = dict(problem.get("options") or {})
    n = spec["nfree"]
    # what the USER asked for is the specification; the completed options only fill in what was not supplied
    g = lambda k, d: opts_in[k] if k in opts_in else o.get(k, d)
    fsize = int(g("filter_size", sys.maxsize))
    hsize = int(g("history_size", sys.maxsize))
    return " ".join(str(t) for t in [
        "run", int(spec["red_ok"]), n, int(g("maxfev", 0)), int(g("maxiter", 0)), int(g("nb_points", 0)),
        f2b(g("target", -np.inf)), f2b(g("feasibility_tol", np.sqrt(np.finfo(float).eps))),
        int(problem.get("fun") is None), int(bool(problem.get("callback_kind"))),
        fsize, hsize, int(bool(g("store_history", False))), out["ncon"]])


def trace_line(out, problem):
    return cfg_line(out, problem) + " | " + " ; ".join(out["rec"].events)
