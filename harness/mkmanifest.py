#!/opt/veriftools/pyvenv/bin/python
"""Generates MANIFEST.json from the table below (keeps it schema-valid at all times)."""
import json, os, sys
ROOT = os.path.dirname(os.path.dirname(os.path.abspath(__file__)))
sys.path.insert(0, os.path.dirname(os.path.abspath(__file__)))
from manifest_table import CHECKS, NOT_APPLICABLE, ENGINES, NOTES

PY = "/venv/bin/python harness/check.py"
m = {
    "version": 1,
    "setup_cmd": "cd lean && lake build",
    "hooks": {
        "guard": "COBYQA_VERIF",
        "enable": "no source hooks: the recorder monkey-patches cobyqa classes inside the harness process only; checks import cobyqa from /repo's working tree",
        "baseline_off_cmd": "cd /repo && /venv/bin/python -m pytest -ra -q -p no:cacheprovider --timeout=900 --continue-on-collection-errors",
        "source_commits": [],
        "add_only": True,
    },
    "engines": ENGINES,
    "checks": [],
    "notes": NOTES,
    "not_applicable": NOT_APPLICABLE,
}
for c in CHECKS:
    pid = c["id"]
    m["checks"].append({
        "property_id": pid,
        "quick_cmd": f"{PY} --prop {pid} --tier quick",
        "thorough_cmd": f"{PY} --prop {pid} --tier thorough",
        "evidence_file": f"evidence/{pid}.json",
        "replay_cmd_template": f"{PY} --prop {pid} --replay {{path}}",
        "engine": "lean-proof+correspondence",
        "level_claimed": {"category": c["level"], "text": c["text"], "design_ref": c.get("design_ref", "DESIGN.md §5 " + pid)},
        "level_note": c["note"],
        "technique": c["technique"],
    })
json.dump(m, open(os.path.join(ROOT, "MANIFEST.json"), "w"), indent=1)
try:
    import jsonschema
    jsonschema.validate(m, json.load(open("/root/.vp/MANIFEST.schema.json")))
    print("MANIFEST.json valid,", len(m["checks"]), "checks,", len(NOT_APPLICABLE), "not applicable")
except ImportError:
    print("written (jsonschema not available)")
