"""Seeded generator of whole-run problems (JSON-serialisable descriptions) for the run-level checks."""
import numpy as np
from scipy.optimize import Bounds, LinearConstraint, NonlinearConstraint

INF = float("inf")
NAN = float("nan")


# ------------------------------------------------------------------ functions from descriptions
def make_fun(d, counter):
    kind = d["kind"]
    c = np.array(d.get("c", []), float)
    w = np.array(d.get("w", []), float)

    def base(x):
        if kind == "quad":
            return float(np.sum(w * (x - c) ** 2))
        if kind == "rosen":
            if x.size == 1:
                return float((x[0] - c[0]) ** 2)
            return float(np.sum(100.0 * (x[1:] - x[:-1] ** 2) ** 2 + (1.0 - x[:-1]) ** 2))
        if kind == "abs":
            return float(np.sum(w * np.abs(x - c)))
        if kind == "noisy":
            return float(np.sum(w * (x - c) ** 2) + 1e-3 * np.sin(1e4 * np.sum(x)))
        if kind == "lin":
            return float(c @ x)
        if kind == "const":
            return 0.0
        if kind == "cosprod":    # non-convex, many stationary points inside a box of a few units
            return float(np.prod(np.cos(w * (x - c))) + 0.1 * np.sum((x - c) ** 2))
        if kind == "floor":      # a quadratic with a flat floor: the value `level` is attained EXACTLY on a whole ball
            return float(max(np.sum(w * (x - c) ** 2), d["level"]))
        raise ValueError(kind)

    def fun(x, *args):
        counter[0] += 1
        k = counter[0]
        x = np.asarray(x, float)
        bad = d.get("bad")
        if bad:
            if bad["how"] == "at" and k in bad["idx"]:
                return bad["val"]
            if bad["how"] == "region" and x[0] > bad["t"]:
                return bad["val"]
            if bad["how"] == "from" and k >= bad["k"]:
                return bad["val"]
            if bad["how"] == "allbut" and k not in bad["idx"]:
                return bad["val"]
        v = base(x)
        if d.get("ret") == "array":
            return np.array([v])
        if d.get("ret") == "array0d":
            return np.array(v)
        if d.get("ret") == "npfloat":
            return np.float64(v)
        return v
    return fun


def make_con(d, counter):
    kind = d["kind"]
    c = np.array(d.get("c", []), float)

    def base(x):
        if kind == "ball":
            return float(np.sum((x - c) ** 2) - d["r"] ** 2)
        if kind == "parab":
            return float(d["a"] * x[0] ** 2 - x[-1] - d["b"])
        if kind == "plane":
            return float(c @ x - d["b"])
        if kind == "vec":
            return np.array([np.sum(x ** 2) - d["r"] ** 2, c @ x - d["b"]])
        if kind == "sin":
            return float(np.sin(x[0] * d["a"]) + x[-1] - d["b"])
        if kind == "quartic":
            return float(np.sum(x ** 4) - d["r"] ** 4)
        if kind == "l1":
            return float(np.sum(np.abs(x - c)) - d["r"])
        raise ValueError(kind)

    def con(x, *args):
        counter[0] += 1
        x = np.asarray(x, float)
        bad = d.get("bad")
        v = base(x)
        if bad and bad["how"] == "at" and counter[0] in bad["idx"]:
            v = v * 0 + bad["val"]
        if bad and bad["how"] == "region" and x[0] > bad["t"]:
            v = v * 0 + bad["val"]
        if bad and bad["how"] == "from" and counter[0] >= bad["k"]:
            v = v * 0 + bad["val"]
        if bad and bad["how"] == "allbut" and counter[0] not in bad["idx"]:
            v = v * 0 + bad["val"]
        return v
    return con


def build(desc):
    """description -> problem dict for trace.record"""
    cnt_f = [0]
    fun = make_fun(desc["fun"], cnt_f) if desc.get("fun") else None
    b = desc.get("bounds")
    bounds = None
    if b is not None:
        lb = [INF if v == "inf" else -INF if v == "-inf" else NAN if v == "nan" else v for v in b["lb"]]
        ub = [INF if v == "inf" else -INF if v == "-inf" else NAN if v == "nan" else v for v in b["ub"]]
        bounds = Bounds(lb, ub) if b.get("form", "Bounds") == "Bounds" else np.array([lb, ub], float).T
    cons = []
    for cd in desc.get("constraints", []):
        lim = lambda v: INF if v == "inf" else -INF if v == "-inf" else NAN if v == "nan" else v
        if cd["type"] == "linear":
            A = np.array(cd["A"], float)
            if cd.get("flat") and A.shape[0] == 1:
                cons.append(LinearConstraint(A[0], lim(cd["lb"][0]), lim(cd["ub"][0])))      # one row given as a vector, scalar limits
            else:
                cons.append(LinearConstraint(A, [lim(v) for v in cd["lb"]], [lim(v) for v in cd["ub"]]))
        elif cd["type"] == "nonlinear":
            f = make_con(cd["fun"], [0])
            lb = [lim(v) for v in cd["lb"]]
            ub = [lim(v) for v in cd["ub"]]
            cons.append(NonlinearConstraint(f, lb[0] if len(lb) == 1 else lb, ub[0] if len(ub) == 1 else ub))
        elif cd["type"] == "dict":
            f = make_con(cd["fun"], [0])
            dd = {"type": cd["ctype"], "fun": f}
            if "args" in cd:
                dd["args"] = tuple(cd["args"])
            cons.append(dd)
    opts = dict(desc.get("options") or {})
    for k in ("target",):
        if opts.get(k) == "-inf":
            opts[k] = -INF
    return {"fun": fun, "x0": list(desc["x0"]), "bounds": bounds, "constraints": cons, "api": desc.get("api"),
            "callback_kind": desc.get("callback_kind"), "stop_at": desc.get("stop_at"),
            "overwrite": desc.get("overwrite", False), "options": opts, "constants": desc.get("constants") or {},
            "args": tuple(desc.get("args", ()))}


# ------------------------------------------------------------------ random descriptions
def r(x):
    return float(np.round(x, 6))


def gen(rng, focus="general"):
    n = int(rng.integers(1, 5)) if rng.random() < 0.85 else 5
    desc = {"x0": [r(v) for v in rng.uniform(-2, 2, n)]}
    # objective
    u = rng.random()
    pfeas = 0.25 if focus in ("feasibility", "C05") else 0.1
    if u < pfeas:
        desc["fun"] = None
    else:
        kind = ["quad", "quad", "rosen", "abs", "noisy", "lin", "const"][int(rng.integers(7))]
        desc["fun"] = {"kind": kind, "c": [r(v) for v in rng.uniform(-2, 2, n)], "w": [r(v) for v in rng.uniform(0.5, 3, n)]}
        if rng.random() < (0.35 if focus in ("nan", "C08") else 0.08):
            how = "at" if rng.random() < 0.6 else "region"
            bad = {"how": how, "val": [NAN, INF, -INF, 1e300][int(rng.integers(4))]}
            if how == "at":
                bad["idx"] = sorted(set(int(v) for v in rng.integers(1, 25, int(rng.integers(1, 4)))))
            else:
                bad["t"] = r(rng.uniform(-1, 2))
            desc["fun"]["bad"] = bad
        if rng.random() < 0.15:
            desc["fun"]["ret"] = ["array", "array0d", "npfloat"][int(rng.integers(3))]
    # bounds
    u = rng.random()
    if u < 0.55:
        lb, ub = [], []
        for i in range(n):
            p = rng.random()
            if p < 0.15:
                lb.append("-inf"); ub.append("inf")
            elif p < 0.3:
                lb.append(r(rng.uniform(-3, 0))); ub.append("inf")
            elif p < 0.4:
                lb.append("-inf"); ub.append(r(rng.uniform(0, 3)))
            elif p < 0.5 and n > 1:
                v = r(rng.uniform(-1, 1)); lb.append(v); ub.append(v)          # fixed variable
            elif p < 0.6:
                a = r(rng.uniform(-1, 1)); lb.append(a); ub.append(r(a + 10 ** rng.uniform(-3, -0.5)))  # narrow
            else:
                a = r(rng.uniform(-3, 0)); lb.append(a); ub.append(r(a + rng.uniform(0.5, 5)))
        desc["bounds"] = {"lb": lb, "ub": ub, "form": "Bounds" if rng.random() < 0.7 else "array"}
        s = rng.random()
        if focus in ("degenerate", "C07", "C08") and s < 0.12 or s < 0.02:
            i = int(rng.integers(n)); desc["bounds"]["lb"][i], desc["bounds"]["ub"][i] = 1.0, -1.0   # inconsistent
        elif focus in ("degenerate", "C07", "C08") and s < 0.24 or s < 0.04:
            vals = [r(v) for v in rng.uniform(-1, 1, n)]
            desc["bounds"]["lb"], desc["bounds"]["ub"] = vals, list(vals)                              # all fixed
    # constraints
    cons = []
    u = rng.random()
    ncons = 0 if u < 0.35 else int(rng.integers(1, 4))
    if desc["fun"] is None and ncons == 0:
        ncons = 1
    for _ in range(ncons):
        t = rng.random()
        if t < 0.35:
            m = int(rng.integers(1, 3))
            A = [[r(v) for v in rng.normal(size=n)] for _ in range(m)]
            lb, ub = [], []
            for _ in range(m):
                p = rng.random()
                if p < 0.4:
                    lb.append("-inf"); ub.append(r(rng.uniform(0, 3)))
                elif p < 0.6:
                    lb.append(r(rng.uniform(-3, 0))); ub.append("inf")
                elif p < 0.8:
                    a = r(rng.uniform(-2, 0)); lb.append(a); ub.append(r(a + rng.uniform(0.5, 4)))
                else:
                    a = r(rng.uniform(-1, 1)); lb.append(a); ub.append(a)
            cons.append({"type": "linear", "A": A, "lb": lb, "ub": ub})
            if m == 1 and rng.random() < 0.3:
                cons[-1]["flat"] = True
        else:
            kind = ["ball", "parab", "plane", "vec", "sin", "quartic", "l1"][int(rng.integers(7))]
            fd = {"kind": kind, "c": [r(v) for v in rng.uniform(-1, 1, n)], "r": r(rng.uniform(0.5, 3)),
                  "a": r(rng.uniform(0.5, 3)), "b": r(rng.uniform(-1, 1))}
            if rng.random() < (0.25 if focus in ("nan", "C08") else 0.05):
                fd["bad"] = {"how": "at", "val": [NAN, INF, -INF][int(rng.integers(3))],
                             "idx": sorted(set(int(v) for v in rng.integers(1, 25, int(rng.integers(1, 3)))))}
            m = 2 if kind == "vec" else 1
            if rng.random() < 0.3 and m == 1:
                cons.append({"type": "dict", "ctype": "eq" if rng.random() < 0.5 else "ineq", "fun": fd})
            else:
                p = rng.random()
                if p < 0.07:
                    lb, ub = ["-inf"] * m, ["inf"] * m      # a constraint function without limits: called, never binding
                elif p < 0.4:
                    lb, ub = ["-inf"] * m, [0.0] * m
                elif p < 0.6:
                    lb, ub = [0.0] * m, [0.0] * m
                elif p < 0.8:
                    lb, ub = [-0.5] * m, [0.5] * m
                else:
                    lb, ub = [0.0] * m, ["inf"] * m
                if rng.random() < 0.5:
                    lb, ub = lb[:1], ub[:1]      # scalar-broadcast limits
                cons.append({"type": "nonlinear", "fun": fd, "lb": lb, "ub": ub})
    desc["constraints"] = cons
    # the forms in which the same arguments are handed over
    if rng.random() < 0.5:
        desc["api"] = {"x0": ["list", "tuple", "array", "column"][int(rng.integers(4))],
                       "cons": ["list", "tuple", "single"][int(rng.integers(3))], "maxfev_float": bool(rng.random() < 0.3)}
    # options
    o = {}
    nfree = n
    npt_default = 2 * n + 1
    if rng.random() < 0.3:
        o["nb_points"] = int(rng.integers(n + 1, (n + 1) * (n + 2) // 2 + 1))
    npt = o.get("nb_points", npt_default)
    u = rng.random()
    pm = 0.5 if focus in ("C05", "budget") else 0.25
    if u < pm:
        o["maxfev"] = int(max(1, npt + rng.integers(-3, 4))) if rng.random() < 0.6 else int(rng.integers(1, 60))
    elif u < pm + 0.5:
        o["maxfev"] = int(rng.integers(20, 120))
    else:
        o["maxfev"] = 150
    if rng.random() < (0.4 if focus in ("C05", "budget") else 0.15):
        o["maxiter"] = int(rng.integers(1, 12))
    if rng.random() < (0.5 if focus in ("C09", "C07", "target") else 0.2) and desc["fun"] is not None:
        o["target"] = r(rng.uniform(-1, 8))
        if rng.random() < 0.25 and "bad" not in desc["fun"]:
            # a target met with EQUALITY, typically first in the main loop: the objective has a flat floor at the target
            desc["fun"]["kind"] = "floor"
            desc["fun"]["level"] = o["target"] = r(rng.uniform(0.05, 2))
    if rng.random() < 0.3:
        o["scale"] = True
    if rng.random() < (0.6 if focus in ("C05", "history") else 0.3):
        o["store_history"] = True
        if rng.random() < 0.6:
            o["history_size"] = int(rng.integers(1, 30))
    if rng.random() < 0.15:
        o["filter_size"] = int(rng.integers(1, 5))
    if rng.random() < 0.2:
        o["radius_init"] = r(10 ** rng.uniform(-2, 1))
    if rng.random() < 0.2:
        o["radius_final"] = r(min(o.get("radius_init", 1.0), 10 ** rng.uniform(-8, -2)))
    u = rng.random()
    if u < 0.1:
        o["feasibility_tol"] = r(10 ** rng.uniform(-10, -2))
    elif u < (0.3 if focus in ("C03", "C07", "C09", "target") else 0.16):
        o["feasibility_tol"] = 0.0      # boundary: a violation EQUAL to the tolerance is feasible everywhere or nowhere
    if rng.random() < (0.3 if focus == "C06" else 0.12):
        o["disp"] = True
    desc["options"] = o
    # callback
    if rng.random() < (0.7 if focus in ("C20", "C09", "callback") else 0.35):
        kinds = ["xk", "ir", "ir_kwonly", "lambda", "ir_lambda", "object", "object_xk", "ir_method", "method_xk", "partial", "ir_partial"]
        desc["callback_kind"] = kinds[int(rng.integers(len(kinds)))]
        if rng.random() < (0.5 if focus in ("C20", "C09", "callback") else 0.25):
            desc["stop_at"] = int(rng.integers(1, 30))
        if rng.random() < 0.3:
            desc["overwrite"] = True
    return desc
