#!/venv/bin/python
"""Evaluate a seeded defect: seedtest.py <dir with patch.diff demo.py meta.json> <seed id> <prop> [<prop> ...]
Confirms demo passes on the clean tree, fails with the patch, the suite passes with the patch, then runs
the listed checks (quick) against the patched /repo and records which raise a VIOLATION.  /repo is restored."""
import json, os, shutil, subprocess, sys
src, sid, props = sys.argv[1], sys.argv[2], sys.argv[3:]
VERIF = os.path.dirname(os.path.dirname(os.path.abspath(__file__)))
REPO = os.environ.get("COBYQA_REPO", "/repo")
dst = f"{VERIF}/seeded/{sid}"
os.makedirs(dst, exist_ok=True)
for f in ("patch.diff", "demo.py", "meta.json"):
    if os.path.abspath(src) != os.path.abspath(dst):
        shutil.copy(os.path.join(src, f), os.path.join(dst, f))
env = dict(os.environ, PYTHONPATH=REPO)
def run(cmd, **kw):
    return subprocess.run(cmd, capture_output=True, text=True, **kw)
assert run(["git", "-C", REPO, "status", "--porcelain"]).stdout.strip() == "", "repo not clean"
rec = {"demo_clean": None, "demo_patched": None, "suite_patched": None, "checks": {}}
r = run(["/venv/bin/python", os.path.join(dst, "demo.py")], env=env, cwd=REPO, timeout=600)
rec["demo_clean"] = r.returncode
a = run(["git", "-C", REPO, "apply", os.path.join(dst, "patch.diff")])
if a.returncode != 0:
    print("patch does not apply:", a.stderr); sys.exit(3)
try:
    r = run(["/venv/bin/python", os.path.join(dst, "demo.py")], env=env, cwd=REPO, timeout=600)
    rec["demo_patched"] = r.returncode
    t = run(["/venv/bin/python", "-m", "pytest", "-q", "-p", "no:cacheprovider", "--timeout=900"], cwd=REPO, timeout=1200)
    rec["suite_patched"] = [l for l in t.stdout.splitlines() if "passed" in l or "failed" in l][-1:]
    for p in props:
        c = run(["/venv/bin/python", "harness/check.py", "--prop", p, "--tier", "quick"], cwd=VERIF, timeout=3600)
        viol = [l for l in c.stdout.splitlines() if l.startswith("VIOLATION")]
        rec["checks"][p] = {"exit": c.returncode, "violations": len(viol),
                            "with_failing_input": sum(1 for l in viol if "no-failing-input-found" not in l),
                            "first": viol[0] if viol else None}
        # the replay file must reproduce the violation on the patched tree ...
        first = next((l for l in viol if "no-failing-input-found" not in l), None)
        if first:
            rp = first.split("replay=")[1].split()[0]
            keep = os.path.join("/tmp", "seedreplay_" + os.path.basename(rp))
            shutil.copy(os.path.join(VERIF, rp), keep)
            rr = run(["/venv/bin/python", "harness/check.py", "--prop", p, "--tier", "quick", "--replay", keep], cwd=VERIF, timeout=1800)
            rec["checks"][p]["replay_on_patched_exit"] = rr.returncode
            rec["checks"][p]["_replay_file"] = keep
finally:
    run(["git", "-C", REPO, "checkout", "--", "."])
    shutil.rmtree(VERIF + "/evidence/replay", ignore_errors=True)
# ... and pass on the unchanged tree
for p, info in rec["checks"].items():
    keep = info.pop("_replay_file", None)
    if keep:
        rr = run(["/venv/bin/python", "harness/check.py", "--prop", p, "--tier", "quick", "--replay", keep], cwd=VERIF, timeout=1800)
        info["replay_on_clean_exit"] = rr.returncode
        os.remove(keep)
shutil.rmtree(VERIF + "/evidence/replay", ignore_errors=True)
meta = json.load(open(os.path.join(dst, "meta.json")))
meta["what_was_run"] = rec
meta["confirmed"] = bool(rec["demo_clean"] == 0 and rec["demo_patched"] not in (0, None) and rec["suite_patched"] and "failed" not in rec["suite_patched"][0])
json.dump(meta, open(os.path.join(dst, "meta.json"), "w"), indent=1)
print(json.dumps({"id": sid, "confirmed": meta["confirmed"], **rec}, indent=1))
