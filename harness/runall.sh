#!/bin/sh
# usage: harness/runall.sh [quick|thorough]   — every registered check, one line each; exit 1 if any is not 0
tier=${1:-quick}
cd "$(dirname "$0")/.."
rc=0
for p in C01 C02 C03 C04 C05 C06 C07 C08 C09 C10 C11 C12 C13 C14 C15 C16 C17 C18 C19 C20; do
  out=$(/venv/bin/python harness/check.py --prop $p --tier $tier 2>&1); e=$?
  echo "$out" | grep -E "^\[|^VIOLATION|^KNOWN-FINDING" | cut -c1-200
  [ $e -ne 0 ] && rc=1
done
exit $rc
