"""Shared machinery of the algebra checks (C12, C13, C14): drive a real `cobyqa.models.Models` with a random
history of replacements / base shifts / resets on exactly representable (dyadic) data, mirror the history in
the exact rational Lean model (DriverAlg.lean, inverses certified there), and collect both sides."""
import warnings
from fractions import Fraction as Fr
import numpy as np
import exact
import impl

EPS = float(np.finfo(float).eps)


def dy(rng, lo, hi, den=16):
    return float(rng.integers(int(lo * den), int(hi * den) + 1)) / den


def poly_funs(rng, n, nfun):
    """nfun cubic polynomials with dyadic coefficients (exact in binary64 on the small dyadic points used)"""
    fs = []
    for _ in range(nfun):
        c0 = dy(rng, -2, 2, 4)
        g = np.array([dy(rng, -2, 2, 4) for _ in range(n)])
        H = np.array([[dy(rng, -1, 1, 4) for _ in range(n)] for _ in range(n)])
        H = H + H.T
        t = np.array([dy(rng, -1, 1, 2) for _ in range(n)])
        fs.append(lambda x, c0=c0, g=g, H=H, t=t: float(c0 + g @ x + 0.5 * x @ H @ x + np.sum(t * x ** 3)))
    return fs


def make_models(rng, n, npt, m_ub, m_eq, sigma=1.0):
    from cobyqa.models import Models
    from cobyqa.settings import Options
    from scipy.optimize import NonlinearConstraint
    fs = poly_funs(rng, n, 1 + m_ub + m_eq)
    if sigma != 1.0:
        # the same functions on a set shrunk by a power of two (exact in binary64): f_sigma(x) = f(x / sigma)
        fs = [lambda x, f=f: f(np.asarray(x, float) / sigma) for f in fs]
    cons = []
    if m_ub:
        cons.append(NonlinearConstraint(lambda x: np.array([f(x) for f in fs[1:1 + m_ub]]), -np.inf, 0.0))
    if m_eq:
        cons.append(NonlinearConstraint(lambda x: np.array([f(x) for f in fs[1 + m_ub:]]), 0.0, 0.0))
    pb = impl.make_problem(fs[0], np.zeros(n), nonlinear=cons)
    options = {Options.RHOBEG.value: 1.0 * sigma, Options.RHOEND.value: 1e-6 * sigma, Options.NPT.value: npt, Options.MAX_EVAL.value: 10 ** 6,
               Options.TARGET.value: -np.inf, Options.FEASIBILITY_TOL.value: 1e-8, Options.DEBUG.value: False}
    with warnings.catch_warnings():
        warnings.simplefilter("ignore")
        models = Models(pb, options, 0.0)
    return models, fs, options, pb


def cond_of(models):
    from cobyqa.models import build_system
    a, _, _ = build_system(models.interpolation)
    try:
        return float(np.linalg.cond(a))
    except np.linalg.LinAlgError:
        return float("inf")


def cond_of_fresh(models):
    """conditioning of the system of the CURRENT points, computed on a copy so that the object's cache is not touched"""
    import copy
    from cobyqa.models import build_system
    I2 = copy.copy(models.interpolation)
    I2._xpt = np.copy(models.interpolation.xpt)
    I2._lhs_cache = None
    a, _, _ = build_system(I2)
    try:
        return float(np.linalg.cond(a))
    except np.linalg.LinAlgError:
        return float("inf")


def frs(a):
    return [Fr(float(v)) for v in np.asarray(a, float).ravel()]


def xpt_rows(models):
    X = models.interpolation.xpt
    return [[Fr(float(X[i, k])) for i in range(X.shape[0])] for k in range(X.shape[1])]


def float_state(models, probes):
    """values of every model at every interpolation point, and (value, gradient, curvature) at the probes"""
    I = models.interpolation
    pts = [I.point(k) for k in range(models.npt)]
    vals = [[float(models.fun(x)) for x in pts]]
    vals += [[float(models.cub(x)[i]) for x in pts] for i in range(models.m_nonlinear_ub)]
    vals += [[float(models.ceq(x)[i]) for x in pts] for i in range(models.m_nonlinear_eq)]
    rec = [list(models.fun_val)] + [list(models.cub_val[:, i]) for i in range(models.m_nonlinear_ub)] + \
          [list(models.ceq_val[:, i]) for i in range(models.m_nonlinear_eq)]
    pr = []
    for x in probes:
        d = x - I.x_base
        row = [(float(models.fun(x)), list(models.fun_grad(x)), float(models.fun_curv(d)))]
        row += [(float(models.cub(x)[i]), list(models.cub_grad(x)[i]), float(models.cub_curv(d)[i])) for i in range(models.m_nonlinear_ub)]
        row += [(float(models.ceq(x)[i]), list(models.ceq_grad(x)[i]), float(models.ceq_curv(d)[i])) for i in range(models.m_nonlinear_eq)]
        pr.append(row)
    return vals, rec, pr


class ImplCrash(Exception):
    pass


def _history(rng, n, npt, m_ub, m_eq, length, max_cond=1e6, sigma=1.0):
    """returns dict with the driver request line and, per op, the float side observations; None if the
    geometry degenerated at the start"""
    models, fs, options, pb = make_models(rng, n, npt, m_ub, m_eq, sigma)
    nfun = 1 + m_ub + m_eq
    I = models.interpolation
    base0 = frs(I.x_base)
    X0 = xpt_rows(models)
    Winv = exact.inverse(exact.kkt(X0))
    if Winv is None or cond_of(models) > max_cond:
        return None
    F0 = [frs(models.fun_val)] + [frs(models.cub_val[:, i]) for i in range(m_ub)] + [frs(models.ceq_val[:, i]) for i in range(m_eq)]
    parts = [exact.rl(base0), " ".join(exact.rl(r) for r in X0), " ".join(exact.rl(r) for r in F0), " ".join(exact.rl(r) for r in Winv)]
    probe0 = np.array([dy(rng, -1, 1) for _ in range(n)])
    obs = [("I", float_state(models, []), cond_of(models), None)]
    conds = [cond_of(models)]
    kinds = {"U": 0, "S": 0, "R": 0, "P": 0, "T": 0}
    # random operations, then a fixed tail: replacement, reset, probe, shift, probe (so that every history
    # checks a rebuilt model and a shifted model at a probe point)
    draws = [None] * length + [0.0, 0.8, 0.9, 0.7, 0.9]
    for r in draws:
        if r is None:
            r = rng.random()
        if r < 0.6:
            # replacement: arbitrary index, new point within a few radii, set kept well conditioned
            for _try in range(8):
                k = int(rng.integers(npt))
                xnew = sigma * np.array([dy(rng, -2, 2) for _ in range(n)]) + (I.x_base if rng.random() < 0.5 else 0.0)
                Xn = xpt_rows(models)
                Xn[k] = [Fr(float(a)) - Fr(float(b)) for a, b in zip(xnew, I.x_base)]
                Wn = exact.inverse(exact.kkt(Xn))
                if Wn is None:
                    continue
                # conditioning of the float system after the replacement
                old = np.copy(I.xpt[:, k])
                I.xpt[:, k] = xnew - I.x_base
                c = cond_of(models)
                I.xpt[:, k] = old
                if c <= max_cond:
                    break
            else:
                continue
            vals = [f(xnew) for f in fs]
            if rng.random() < 0.2:
                # exact tie: the value observed at the new point is EXACTLY what the current models predict there
                # (zero interpolation error); the minimum-norm update must still move the replaced point's share
                vals = [float(models.fun(xnew))] + [float(v) for v in models.cub(xnew)] + [float(v) for v in models.ceq(xnew)]
                kinds["T"] = kinds.get("T", 0) + 1
            with warnings.catch_warnings():
                warnings.simplefilter("ignore")
                try:
                    models.update_interpolation(k, xnew, float(vals[0]), np.array(vals[1:1 + m_ub], float), np.array(vals[1 + m_ub:], float))
                except Exception as exc:  # noqa
                    raise ImplCrash(f"update_interpolation raised {type(exc).__name__}: {exc}")
            got_rows = xpt_rows(models)
            if got_rows != Xn:
                # not exactly the expected set: either binary64 could not represent the offsets (drop the history) or the
                # implementation stored the new point somewhere else (a failure of the operation itself)
                worst = max(abs(float(a - b)) for ra, rb in zip(got_rows, Xn) for a, b in zip(ra, rb))
                scale_ = max(1.0, max(abs(float(v)) for r_ in Xn for v in r_))
                if worst > 1e-9 * scale_:
                    raise ImplCrash(f"after update_interpolation({k}, ...) the interpolation points are not the old ones with point {k} replaced (largest difference {worst!r})")
                return None
            parts += [f"U {k}", exact.rl(frs(xnew)), exact.rl(frs(vals)), " ".join(exact.rl(r) for r in Wn)]
            obs.append(("U", float_state(models, []), c, {"k": k, "xnew": xnew.tolist()}))
            kinds["U"] += 1
            conds.append(c)
        elif r < 0.75:
            k = int(rng.integers(npt))
            nb = np.copy(I.point(k))
            try:
                models.shift_x_base(nb, options)
            except Exception as exc:  # noqa
                raise ImplCrash(f"shift_x_base raised {type(exc).__name__}: {exc}")
            parts += ["S", exact.rl(frs(nb))]
            obs.append(("S", float_state(models, []), cond_of(models), {"k": k}))
            kinds["S"] += 1
        elif r < 0.85:
            Wn = exact.inverse(exact.kkt(xpt_rows(models)))
            if Wn is None:
                continue
            with warnings.catch_warnings():
                warnings.simplefilter("ignore")
                try:
                    models.reset_models()
                except Exception as exc:  # noqa
                    raise ImplCrash(f"reset_models raised {type(exc).__name__}: {exc}")
            parts += ["R", " ".join(exact.rl(r) for r in Wn)]
            obs.append(("R", float_state(models, []), cond_of(models), None))
            kinds["R"] += 1
        else:
            x = I.x_base + sigma * np.array([dy(rng, -1, 1) for _ in range(n)])
            parts += ["P", exact.rl(frs(x))]
            obs.append(("P", float_state(models, [x]), cond_of(models), {"x": x.tolist()}))
            kinds["P"] += 1
    return {"line": f"quad {n} {npt} {nfun} | " + " ; ".join(parts), "obs": obs, "n": n, "npt": npt, "nfun": nfun,
            "max_cond": max(conds), "kinds": kinds, "models": models}


def history(rng, n, npt, m_ub, m_eq, length, max_cond=1e6, sigma=1.0):
    """as _history; an exception raised by the implementation on a valid operation is returned as {"crash": text}.
    sigma (a power of two): the whole geometry is shrunk by that factor, the functions are f(x / sigma)"""
    try:
        return _history(rng, n, npt, m_ub, m_eq, length, max_cond, sigma)
    except ImplCrash as exc:
        return {"crash": str(exc)}


def parse_answer(ans, nfun):
    """-> list of (op, per-model list of exact values, interp flags) ; for probes (value, grad list, curv)"""
    out = []
    for seg in ans.split(" | "):
        seg = seg.strip()
        op, _, rest = seg.partition(" ")
        if op in ("bad-inverse", "bad-op", "fuel"):
            out.append((op, None, None))
            continue
        per = rest.split(" , ")
        if op == "P":
            rows = []
            for m in per:
                toks = m.split()
                rows.append((Fr(toks[0]), [Fr(t) for t in toks[1:-1]], Fr(toks[-1])))
            out.append(("P", rows, None))
        else:
            vals, flags = [], []
            for m in per:
                toks = m.split()
                flags.append(toks[-1] == "interp=1")
                vals.append([Fr(t) for t in toks[:-1]])
            out.append((op, vals, flags))
    return out
