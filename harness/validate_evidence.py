#!/opt/veriftools/pyvenv/bin/python
import json, sys, glob, jsonschema
sch = json.load(open("/root/.vp/EVIDENCE.schema.json"))
for p in sorted(glob.glob("/verif/evidence/C*.json")):
    try:
        jsonschema.validate(json.load(open(p)), sch); print("valid", p)
    except Exception as e:
        print("INVALID", p, str(e)[:300])
