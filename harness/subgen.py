"""Inputs for the five subproblem solvers over the input space of C15 / C16, the calls to the real solvers and the
request lines of the Lean-evaluated predicates."""
import warnings
import numpy as np
from common import f2b

EPS = float(np.finfo(float).eps)
INF = float("inf")
KINDS = ["tangential", "constrained_tangential", "normal", "cauchy", "spider"]
KCODE = {"tangential": 0, "constrained_tangential": 1, "normal": 2, "cauchy": 3, "spider": 3}


def gen(rng, kind):
    n = int(rng.integers(1, 7))
    mag = 10.0 ** rng.uniform(-6, 6) if rng.random() < 0.4 else 1.0
    g = rng.normal(size=n) * mag
    r = rng.random()
    if r < 0.12:
        g[:] = 0.0
    elif r < 0.3:
        g[rng.random(n) < 0.5] = 0.0
    B = rng.normal(size=(n, n))
    r = rng.random()
    convex = False
    if r < 0.2:
        H = np.zeros((n, n))
        convex = True
    elif r < 0.5:
        H = B @ B.T                      # positive semidefinite
        convex = True
    elif r < 0.7:
        H = -(B @ B.T)
    else:
        H = B + B.T                      # indefinite
    H = H * (10.0 ** rng.uniform(-6, 6) if rng.random() < 0.3 else 1.0) * mag
    delta = float(10.0 ** rng.uniform(-6, 6)) if rng.random() < 0.5 else float(rng.uniform(0.1, 3))
    xl = -np.abs(rng.normal(size=n)) * delta * 10.0 ** rng.uniform(-2, 1, n)
    xu = np.abs(rng.normal(size=n)) * delta * 10.0 ** rng.uniform(-2, 1, n)
    for i in range(n):
        r = rng.random()
        if r < 0.15:
            xl[i] = 0.0                  # bound active at the origin
        elif r < 0.3:
            xu[i] = 0.0
        elif r < 0.4:
            xl[i] = -INF
        elif r < 0.5:
            xu[i] = INF
        elif r < 0.55:
            xl[i], xu[i] = -INF, INF
    if rng.random() < 0.25:              # box that fits inside the trust region
        w = delta / (2.0 * np.sqrt(n))
        xl = -np.abs(rng.uniform(0, 1, n)) * w
        xu = np.abs(rng.uniform(0, 1, n)) * w
    r = rng.random()
    if r < 0.12:
        # ties: several variables share their bounds, their gradient component and their curvature, so that several bounds
        # are reached at the same step length
        lo, hi = -abs(rng.normal()) * delta * 0.3, abs(rng.normal()) * delta * 0.3
        xl, xu = np.full(n, lo), np.full(n, hi)
        vals = rng.normal(size=2) * mag
        g = np.where(rng.random(n) < 0.6, vals[0], vals[1])
        H = np.eye(n) * float(abs(rng.normal())) * mag * (0.0 if rng.random() < 0.3 else 1.0)
        convex = True
    elif r < 0.2:
        # the origin sits within rounding distance of some bounds while descent is possible elsewhere
        for i in range(n):
            if rng.random() < 0.5:
                if rng.random() < 0.5:
                    xl[i] = -1e-9 * delta * rng.random()
                else:
                    xu[i] = 1e-9 * delta * rng.random()
    elif r < 0.28 and n >= 2:
        # badly scaled gradient: a steep component BLOCKED by a bound active at the origin (it cannot be followed), next to
        # free components several decades smaller (within the 12 decades the property speaks of)
        i = int(rng.integers(n))
        ratio = 10.0 ** rng.uniform(3, 12)
        others = np.array([j for j in range(n) if j != i])
        base = max(float(np.max(np.abs(g[others]))), 1e-3 * mag)
        if not np.any(g[others]):
            g[others[0]] = base
        if rng.random() < 0.5:
            xl[i], g[i] = 0.0, base * ratio
            xu[i] = max(xu[i], 0.0)
        else:
            xu[i], g[i] = 0.0, -base * ratio
            xl[i] = min(xl[i], 0.0)
        if rng.random() < 0.5:
            H = np.zeros((n, n))
            convex = True
    mub = int(rng.integers(0, 4)) if kind in ("constrained_tangential", "normal") else 0
    meq = int(rng.integers(0, min(n, 3) + 1)) if kind in ("constrained_tangential", "normal") else 0
    aub = rng.normal(size=(mub, n))
    aeq = rng.normal(size=(meq, n))
    if mub >= 2 and rng.random() < 0.3:
        aub[1] = 2.0 * aub[0]            # redundant row
    if meq >= 2 and rng.random() < 0.3:
        aeq[1] = -aeq[0]                 # rank-deficient equalities
    if mub and rng.random() < 0.2:
        aub[0] = 0.0
    if kind == "constrained_tangential":
        bub = np.abs(rng.normal(size=mub)) * delta * 10.0 ** rng.uniform(-2, 1, mub)
        bub[rng.random(mub) < 0.3] = 0.0   # active at the origin
        beq = np.zeros(meq)
    else:
        bub = rng.normal(size=mub) * delta
        beq = rng.normal(size=meq) * delta
    const = 0.0 if rng.random() < 0.6 else float(rng.normal() * mag)
    xpt = rng.normal(size=(n, int(rng.integers(1, 2 * n + 2)))) * delta * 10.0 ** rng.uniform(-1, 1)
    if rng.random() < 0.3:
        xpt[rng.random(xpt.shape) < 0.3] = 0.0      # lines along coordinate directions / with exact zeros
    if kind == "spider":
        for i in range(n):                          # a line that does not move a variable sitting on its bound: 0 / 0 ratios
            if (xl[i] == 0.0 or xu[i] == 0.0) and rng.random() < 0.5:
                xpt[i, int(rng.integers(xpt.shape[1]))] = 0.0
    return {"kind": kind, "n": n, "g": g, "H": H, "xl": xl, "xu": xu, "aub": aub, "bub": bub, "aeq": aeq, "beq": beq,
            "delta": delta, "const": const, "xpt": xpt, "improve_tcg": bool(rng.random() < 0.6), "convex": convex}


def gen_coupled(rng, nmax=4):
    """strongly coupled convex models in a box that is narrow in one variable and a large trust region: a bound is reached
    strictly inside the trust region, the conjugate gradients restart, and the gradient component of the variable just
    fixed may have changed sign through the coupling"""
    n = int(rng.integers(2, nmax + 1))
    L = np.tril(rng.normal(size=(n, n)) * 2.0)
    L[np.diag_indices(n)] = np.abs(rng.normal(size=n)) + 0.5
    H = L @ L.T
    g = rng.normal(size=n) * float(rng.choice([1.0, 4.0, 8.0]))
    xl = -np.abs(rng.normal(size=n)) * 3.0
    xu = np.abs(rng.normal(size=n)) * 3.0
    for _ in range(int(rng.integers(1, 3))):
        i = int(rng.integers(n))
        if rng.random() < 0.5:
            xl[i] = -float(rng.choice([0.05, 0.125, 0.3]))
        else:
            xu[i] = float(rng.choice([0.05, 0.125, 0.3]))
    for i in range(n):
        if rng.random() < 0.25:
            xl[i] = -INF
        if rng.random() < 0.25:
            xu[i] = INF
    return {"kind": "tangential", "n": n, "g": g, "H": H, "xl": xl, "xu": xu, "aub": np.zeros((0, n)), "bub": np.zeros(0),
            "aeq": np.zeros((0, n)), "beq": np.zeros(0), "delta": float(rng.choice([2.0, 4.0, 8.0])), "const": 0.0,
            "xpt": np.zeros((n, 1)), "improve_tcg": bool(rng.random() < 0.5), "convex": True}


def gen_improve(rng, nmin=3, nmax=6):
    """the rarest path of the linearly constrained tangential solver: non-convex models (the truncated conjugate gradients
    end on the trust-region boundary), several free dimensions, bounds of very different widths and inequality rows with
    moderate slack, so that the boundary-improvement phase makes MORE THAN ONE rotation"""
    n = int(rng.integers(nmin, nmax + 1))
    m = int(rng.integers(1, 4))
    g = rng.normal(size=n) * float(rng.choice([1.0, 1.0, 3.0]))
    B = rng.normal(size=(n, n))
    H = (B + B.T) * float(rng.choice([0.5, 1.0, 2.0])) if rng.random() < 0.7 else -(B @ B.T)
    delta = float(rng.choice([0.5, 1.0, 2.0]))
    xl = np.where(rng.random(n) < 0.4, -INF, -np.abs(rng.normal(size=n)) * delta * rng.choice([0.05, 0.5, 2.0], n))
    xu = np.where(rng.random(n) < 0.4, INF, np.abs(rng.normal(size=n)) * delta * rng.choice([0.05, 0.5, 2.0], n))
    aub = rng.normal(size=(m, n))
    bub = np.abs(rng.normal(size=m)) * delta * rng.choice([0.2, 0.6, 1.5], m)
    meq = int(rng.integers(0, 2)) if n >= 4 else 0
    return {"kind": "constrained_tangential", "n": n, "g": g, "H": H, "xl": xl, "xu": xu, "aub": aub, "bub": bub,
            "aeq": rng.normal(size=(meq, n)), "beq": np.zeros(meq), "delta": delta, "const": 0.0, "xpt": np.zeros((n, 1)),
            "improve_tcg": True, "convex": False}


def call(c):
    import cobyqa.subsolvers as S
    g, H = c["g"], c["H"]
    hp = lambda v: H @ v
    curv = lambda v: float(v @ H @ v)
    kw = {"improve_tcg": c["improve_tcg"]}
    with warnings.catch_warnings(), np.errstate(all="ignore"):
        warnings.simplefilter("ignore")
        k = c["kind"]
        if k == "tangential":
            return S.tangential_byrd_omojokun(g, hp, c["xl"].copy(), c["xu"].copy(), c["delta"], False, **kw)
        if k == "constrained_tangential":
            return S.constrained_tangential_byrd_omojokun(g, hp, c["xl"].copy(), c["xu"].copy(), c["aub"], c["bub"].copy(), c["aeq"], c["delta"], False, **kw)
        if k == "normal":
            return S.normal_byrd_omojokun(c["aub"], c["bub"].copy(), c["aeq"], c["beq"], c["xl"].copy(), c["xu"].copy(), c["delta"], False, **kw)
        if k == "cauchy":
            return S.cauchy_geometry(c["const"], g, curv, c["xl"].copy(), c["xu"].copy(), c["delta"], False)
        return S.spider_geometry(c["const"], g, curv, c["xpt"], c["xl"].copy(), c["xu"].copy(), c["delta"], False)


def tolerances(c, s, f_ineq=1e3, f_q=1e3):
    """allowances handed to the exact predicate; all proportional to eps x the size of the terms involved"""
    n = c["n"]
    g, H = c["g"], c["H"]
    sabs = np.abs(s)
    k = c["kind"]
    if k in ("tangential", "constrained_tangential"):
        tolq = f_q * EPS * (float(np.abs(g) @ sabs) + 0.5 * float(sabs @ np.abs(H) @ sabs)) * max(n, 1)
    elif k == "normal":
        base = float(np.sum(np.maximum(-c["bub"], 0.0) ** 2) + np.sum(c["beq"] ** 2))
        a2 = float(np.sum((np.abs(c["aub"]) @ sabs + np.abs(c["bub"])) ** 2) + np.sum((np.abs(c["aeq"]) @ sabs + np.abs(c["beq"])) ** 2))
        tolq = f_q * EPS * max(base, a2) * max(n, 1)
    else:
        tolq = f_q * EPS * (abs(c["const"]) + float(np.abs(g) @ sabs) + 0.5 * float(sabs @ np.abs(H) @ sabs)) * max(n, 1)
    tolub = f_ineq * EPS * max(n, 1) * (np.abs(c["aub"]) @ sabs + np.abs(c["bub"])) if len(c["bub"]) else np.zeros(0)
    # null space: the step is a combination of columns of Q; error ~ eps * n * |A_eq| |s|
    toleq = f_ineq * EPS * max(n, 1) * (np.abs(c["aeq"]) @ sabs) if len(c["beq"]) else np.zeros(0)
    return float(tolq), tolub, toleq


def request(c, s, rtol=1e-12, f_ineq=1e3, f_q=1e3):
    tolq, tolub, toleq = tolerances(c, s, f_ineq, f_q)
    n = c["n"]
    mub, meq = (len(c["bub"]), len(c["beq"])) if c["kind"] in ("constrained_tangential", "normal") else (0, 0)
    vals = list(c["g"]) + list(c["H"].ravel()) + list(c["xl"]) + list(c["xu"])
    if mub or meq:
        vals += list(c["aub"].ravel()) + list(c["bub"]) + list(c["aeq"].ravel()) + list(c["beq"])
    vals += [c["delta"], rtol, c["const"]] + list(s) + [tolq] + list(tolub[:mub]) + list(toleq[:meq])
    return f"stepspec {KCODE[c['kind']]} {n} {mub} {meq} | " + " ".join(str(f2b(v)) for v in vals)


def case_json(c):
    out = {}
    for k, v in c.items():
        out[k] = v.tolist() if isinstance(v, np.ndarray) else v
    return out


def case_from_json(j):
    out = dict(j)
    for k in ("g", "H", "xl", "xu", "aub", "bub", "aeq", "beq", "xpt"):
        out[k] = np.array(j[k], float)
    n = out["n"]
    out["aub"] = out["aub"].reshape(-1, n) if out["aub"].size else np.zeros((0, n))
    out["aeq"] = out["aeq"].reshape(-1, n) if out["aeq"].size else np.zeros((0, n))
    out["H"] = out["H"].reshape(n, n)
    out["xpt"] = out["xpt"].reshape(n, -1)
    return out
