#!/venv/bin/python
"""Entry point of every check:  check.py --prop C03 --tier quick|thorough [--replay file]

exit 0: property held on everything explored; exit 1: VIOLATION line(s) printed; exit 2: the
harness itself could not run (no VIOLATION line)."""
import argparse
import importlib
import json
import os
import sys
import traceback

sys.path.insert(0, os.path.dirname(os.path.abspath(__file__)))
sys.path.insert(0, os.path.join(os.path.dirname(os.path.abspath(__file__)), "props"))


def main():
    ap = argparse.ArgumentParser()
    ap.add_argument("--prop", required=True)
    ap.add_argument("--tier", default=os.environ.get("VERIF_TIER", "quick"))
    ap.add_argument("--replay")
    a = ap.parse_args()
    seed = int(os.environ.get("VERIF_SEED", "0"))
    import numpy as np
    import common
    repo = common.REPO
    if repo not in sys.path:
        sys.path.insert(0, repo)
    try:
        import cobyqa  # noqa
        assert os.path.realpath(os.path.dirname(cobyqa.__file__)).startswith(os.path.realpath(repo)), cobyqa.__file__
        mod = importlib.import_module(a.prop.lower())
    except Exception:
        traceback.print_exc()
        sys.exit(2)
    chk = common.Check(a.prop, mod.LEVEL, a.tier, seed)
    rng = np.random.default_rng([seed, int(a.prop[1:])])
    replay = json.load(open(a.replay)) if a.replay else None
    try:
        mod.run(chk, rng, replay)
    except Exception:
        traceback.print_exc()
        print(f"[{a.prop}] harness error (no verdict)")
        sys.exit(2)
    sys.exit(chk.finish())


if __name__ == "__main__":
    main()
