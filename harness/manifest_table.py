ENGINES = [{
    "name": "lean-proof+correspondence",
    "path": "lean/ (lake project CobyqaVerif) + harness/",
    "serves_properties": [],
    "kind_free_text": "Lean 4 theorems about executable models of the cobyqa code; a Python harness drives the real cobyqa classes and the Lean model driver (lake env lean --run Driver.lean) with the same inputs, compares the outputs and evaluates the Lean property predicate on the implementation's output",
}]
NOTES = "See DESIGN.md. Every check rebuilds its Lean target (lake build), audits #print axioms of its theorems, then runs the correspondence against /repo's working tree."
_PENDING = "check not built yet in this round (planned, see DESIGN.md §7); no claim is made until its Lean model, theorems and correspondence exist"
CHECKS = [
    {"id": "C03", "level": "proof",
     "text": "Lean theorems over all histories of (objective, violation) pairs, NaN included, any length, any filter size: coverage of evaluated points by the filter, feasible-first selection, merit minimality, non-domination, NaN never preferred. The model mirrors Problem.__call__'s filter block and best_eval statement by statement and is compared with the real Problem after every insertion; the post-condition is evaluated in Lean on the implementation's answers.",
     "note": "Theorems are about lean/CobyqaVerif/Model/Filter.lean; the tie to problem.py is the sampled correspondence (exact comparison). Merit clauses assume monotone computed merit (checked per instance). Trusted: Lean kernel + 3 standard axioms, harness, binary64 order = integer key order.",
     "technique": "Lean 4 proof (induction over histories) + differential correspondence"},
]
NOT_APPLICABLE = [{"property_id": f"C{i:02d}", "reason": _PENDING} for i in range(1, 21) if f"C{i:02d}" not in {c["id"] for c in CHECKS}]
ENGINES[0]["serves_properties"] = [c["id"] for c in CHECKS]
