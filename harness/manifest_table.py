ENGINES = [{
    "name": "lean-proof+correspondence",
    "path": "lean/ (lake project CobyqaVerif) + harness/",
    "serves_properties": [],
    "kind_free_text": "Lean 4 theorems about executable models of the cobyqa code; a Python harness drives the real cobyqa classes and the Lean model driver (lake env lean --run Driver.lean) with the same inputs, compares the outputs and evaluates the Lean property predicate on the implementation's output",
}]
NOTES = "See DESIGN.md. Every check rebuilds its Lean target (lake build), audits #print axioms of its theorems, then runs the correspondence against /repo's working tree."
_PENDING = "check not built yet in this round (planned, see DESIGN.md §7); no claim is made until its Lean model, theorems and correspondence exist"
RUNNOTE = 'Theorems are about lean/CobyqaVerif/Model/Run.lean (skeleton of minimize / sampling loop / _eval / Problem.__call__ / _build_result, nondeterministic in everything numeric). The tie to /repo is trace validation: every recorded real run must be accepted by the skeleton (events from monkey-patched methods and user-function spies; no source hooks). Trusted: Lean kernel + 3 standard axioms, recorder and generators, binary64 order = integer key order, Lean Float = numpy float64 for the merit value.'
CHECKS = [
    {"id": "C03", "level": "proof",
     "text": "Lean theorems over all histories of (objective, violation) pairs, NaN included, any length, any filter size: coverage of evaluated points by the filter, feasible-first selection, merit minimality, non-domination, NaN never preferred. The model mirrors Problem.__call__'s filter block and best_eval statement by statement and is compared with the real Problem after every insertion; the post-condition is evaluated in Lean on the implementation's answers.",
     "note": "Theorems are about lean/CobyqaVerif/Model/Filter.lean; the tie to problem.py is the sampled correspondence (exact comparison). Merit clauses assume monotone computed merit (checked per instance). Trusted: Lean kernel + 3 standard axioms, harness, binary64 order = integer key order.",
     "technique": "Lean 4 proof (induction over histories) + differential correspondence"},
    {"id": "C05", "level": "proof",
     "text": "Lean theorems by induction over every event trace the run skeleton accepts: evaluations <= maxfev at every prefix, iterations <= maxiter, nfev = number of evaluations (no separate case for fun=None), nit = number of iterations, histories = last history_size evaluations. Real runs (maxfev around nb_points, small maxiter, feasibility problems, history sizes) are recorded and replayed through the skeleton.",
     "note": RUNNOTE, "technique": "Lean 4 proof (state-machine invariants) + trace validation of real runs"},
    {"id": "C06", "level": "proof",
     "text": "The skeleton accepts user-function calls only inside an evaluation bracket, at the user-space image of the evaluated point, objective exactly once, constraints at most once; Lean theorems derive the counting statements (objective calls = nfev, constraint calls <= nfev, skipped only at the identical previous point). Every user call of real runs is logged by spies and replayed.",
     "note": RUNNOTE + " The user-space image of an internal point is recomputed by the harness from the user's bounds/scale (harness/trace.py expected_user_point), independently of Problem.build_x.",
     "technique": "Lean 4 proof (state-machine invariants, call counting) + trace validation of real runs"},
    {"id": "C07", "level": "proof",
     "text": "Lean theorems over every accepted trace: the status is one of the nine codes and certifies its documented situation (0: resolution <= radius_final; 1/4/3: the most recent evaluation satisfied that request; 2/-1: fixed / inconsistent bounds; 5: nfev = maxfev; 6: nit = maxiter); success implies status 0-4, finite fun and maxcv and maxcv <= tol except for 1 and 4. Real runs reaching all nine statuses (LinAlgError injected) are replayed.",
     "note": RUNNOTE + " Not covered: the message strings (checked only by direct comparison in the harness, no theorem).",
     "technique": "Lean 4 proof (exit-status invariant of the run skeleton) + trace validation of real runs"},
    {"id": "C09", "level": "proof",
     "text": "Lean theorem stop_takes_effect: from a state in which an evaluation has satisfied a stopping request every accepted continuation is quiet (no evaluation, user call, callback, iteration), the result carries that request's status and nfev is the index of that evaluation; evalEnd_sets_request states exactly when a request fires, with the priorities of the code. Real runs with triggers at the first point, during sampling and at trust-region / SOC / geometry evaluations are replayed.",
     "note": RUNNOTE, "technique": "Lean 4 proof (absorbing stopped states) + trace validation of real runs"},
    {"id": "C20", "level": "proof",
     "text": "Lean theorems: an accepted callback call is inside an evaluation after the filter update, once, and its argument is wouldReturn(filter, penalty in force) - the selection of Model/Filter.lean that result_is_would_return shows _build_result uses; callback calls = nfev; StopIteration at call k gives status 3 and nfev = k. Real runs with five callback shapes, overwriting callbacks and stops at every k are replayed.",
     "note": RUNNOTE + " Signature introspection and freshness of the array are exercised by the harness (callback shapes, overwriting callbacks) but have no theorem.",
     "technique": "Lean 4 proof (state-machine invariants + filter selection) + trace validation of real runs"},
    {"id": "C19", "level": "proof",
     "text": "Lean theorems over exact rationals, every subset of settings supplied, every value: if the checks do not raise, every supplied value lies in its documented domain and supplied pairs are in the documented order (contrapositive: out-of-domain values raise ValueError), the completed settings satisfy all documented relations, supplied values are kept, absent ones take the defaults; the defaults (regenerated table) are valid and equal the documented ones (decide). The same definitions run on Float are compared exactly (messages and completed values) with the real minimize on the boundary lattice of every setting, the coupled pairs and random subsets.",
     "note": "Theorems are about lean/CobyqaVerif/Model/Settings.lean over Rat; Gen/Settings.lean is regenerated from settings.py / the docstring by harness/translate.py on every run. Rounding is outside the theorems and visible only in the Float correspondence (one known finding: increase_radius_factor = nextafter(1)). Boolean settings and NaN values are not modelled. Trusted: Lean kernel + 3 standard axioms, translator, harness.",
     "technique": "Lean 4 proof over Q (case analysis + linear arithmetic) + generated tables + differential correspondence"},
    {"id": "C18", "level": "proof",
     "text": "Lean theorems over exact rationals for constants anywhere in their documented domains, arbitrary ratios and step norms, any sequence of operations: radius_final <= resolution <= radius after the setter, update_radius, the short-step reduction and enhance_resolution; the resolution never increases and strictly decreases above radius_final; fitted initial radii ordered; penalty stays non-negative; after set_best_index the centre has least merit up to one tolerance per tolerance switch; the centre is never the argmax chosen for replacement unless every score vanishes. The rules are compared bit-for-bit with a real TrustRegion object on a grid and along real runs (every radius change, best-index scan and index-to-remove choice).",
     "note": "Theorems are about lean/CobyqaVerif/Model/Radius.lean over Rat (sqrt abstract: nonneg, squares back). Binary64: same definitions run on Float agree bit-for-bit with framework.py on everything sampled; the invariants are also evaluated on the implementation's own values. Not proved: the logarithmic bound on the number of reductions, finiteness of the penalty (monitored). Trusted: Lean kernel + 3 standard axioms, harness.",
     "technique": "Lean 4 proof over Q (invariants of the radius state machine, scan and argmax lemmas) + differential correspondence + trace validation"},
]
NOT_APPLICABLE = [{"property_id": f"C{i:02d}", "reason": _PENDING} for i in range(1, 21) if f"C{i:02d}" not in {c["id"] for c in CHECKS}]
ENGINES[0]["serves_properties"] = [c["id"] for c in CHECKS]
