"""Shared machinery of the whole-run checks (C05, C06, C07, C09, C20, ...): record real runs of
`cobyqa.minimize`, replay their event traces through the Lean skeleton (Model/Run.lean) and report
what the skeleton rejects."""
import collections
import json
import multiprocessing as mp
import os
import sys

import numpy as np

import common
import corpus
import genruns

DOCUMENTED_ERRORS = ("ValueError", "TypeError")
_DOC_PREFIXES = None


def documented_prefixes():
    """message prefixes of the ValueError / TypeError that cobyqa itself raises for malformed arguments
    (collected from the `raise` statements of /repo's source)"""
    global _DOC_PREFIXES
    if _DOC_PREFIXES is None:
        import ast, glob
        out = set()
        for path in glob.glob(os.path.join(common.REPO, "cobyqa", "**", "*.py"), recursive=True):
            if os.sep + "tests" + os.sep in path:
                continue
            try:
                tree = ast.parse(open(path).read())
            except SyntaxError:
                continue
            for node in ast.walk(tree):
                if isinstance(node, ast.Raise) and isinstance(node.exc, ast.Call) and getattr(node.exc.func, "id", "") in DOCUMENTED_ERRORS and node.exc.args:
                    a = node.exc.args[0]
                    if isinstance(a, ast.Constant) and isinstance(a.value, str):
                        out.add(a.value[:25])
                    elif isinstance(a, ast.JoinedStr) and a.values and isinstance(a.values[0], ast.Constant):
                        out.add(str(a.values[0].value)[:25])
        _DOC_PREFIXES = out
    return _DOC_PREFIXES


def is_documented_error(text):
    kind, _, msg = text.partition(": ")
    return kind in DOCUMENTED_ERRORS and any(msg.startswith(p) for p in documented_prefixes())


_DOC_TABLE = None


def _documented_message(status):
    """the description of `status` in the table of the docstring of minimize (None = not in the table)"""
    global _DOC_TABLE
    if _DOC_TABLE is None:
        import re
        import cobyqa
        import translate
        _DOC_TABLE = dict(translate._status_table(cobyqa.minimize.__doc__))
    return _DOC_TABLE.get(status)


def _work(item):
    """Runs in a worker process: record one run, return JSON-safe summary."""
    desc, inject, timeout = item
    sys.path.insert(0, os.path.dirname(os.path.abspath(__file__)))
    import trace
    try:
        pb = genruns.build(desc)
        out = trace.record(pb, timeout=timeout, inject=inject)
    except Exception as exc:  # harness-side failure
        return {"desc": desc, "inject": inject, "harness_error": type(exc).__name__ + ": " + str(exc)[:200]}
    res = out["res"]
    summ = {"desc": desc, "inject": inject, "exception": out["exception"], "line": None,
            "n_events": len(out["rec"].events), "status": None}
    if out["exception"] is None:
        summ["line"] = trace.trace_line(out, pb)
        summ["status"] = int(res.status)
        summ["nfev"] = int(res.nfev)
        summ["nit"] = int(res.nit)
        summ["success"] = bool(res.success)
        summ["message"] = str(res.message)
        summ["message_documented"] = _documented_message(int(res.status))
        ev = out["rec"].events
        summ["n_soc"] = sum(1 for e in ev if e == "soc")
        summ["n_geom"] = sum(1 for e in ev if e == "geom")
        summ["n_cb"] = sum(1 for e in ev if e.startswith("cb "))
        summ["pyexc"] = [e for e in ev if e.startswith("pyexc")]
        ret = out["rec"].extra.get("returned", [])
        B = 2.0 ** 100
        summ["barrier_ok"] = all(abs(f) <= B and bool(np.all(np.abs(cu) <= B)) and bool(np.all(np.abs(ce) <= B)) for f, cu, ce in ret)
        summ["n_returned"] = len(ret)
        summ["wellformed"] = all(hasattr(res, k) for k in ("x", "fun", "maxcv", "status", "success", "message", "nfev", "nit")) and \
            isinstance(res.success, (bool, np.bool_)) and np.ndim(res.x) == 1 and len(res.x) == len(desc["x0"])
        summ["nan_success"] = bool(res.success) and not (np.isfinite(res.fun) and np.isfinite(res.maxcv))
        try:
            summ["truth"] = trace.truth_at_result(out, pb)
        except Exception as exc:  # noqa
            summ["truth"] = {"error": type(exc).__name__ + ": " + str(exc)[:100]}
        try:
            summ["truth_all"] = trace.truth_all(out, pb)
        except Exception as exc:  # noqa
            summ["truth_all"] = {"error": type(exc).__name__ + ": " + str(exc)[:100]}
    else:
        summ["events_tail"] = out["rec"].events[-12:]
    summ["convention_errors"] = out["rec"].extra.get("convention_errors", [])
    # arrays handed to the callback must not be touched by the solver afterwards
    changed = [k for (obj, was, k) in out["rec"].extra.get("cb_kept", []) if not np.array_equal(np.asarray(obj, float), was, equal_nan=True)]
    summ["callback_arrays_modified_later"] = changed[:3]
    summ["callback_arrays_kept"] = len(out["rec"].extra.get("cb_kept", []))
    # the points handed to the callback are points of the user's space inside the user's bounds
    b = desc.get("bounds")
    n = len(desc["x0"])
    cv = lambda v: np.inf if v in ("inf", "nan") else -np.inf if v == "-inf" else float(v)
    lb = np.array([(-np.inf if v == "nan" else cv(v)) for v in b["lb"]]) if b else np.full(n, -np.inf)
    ub = np.array([cv(v) for v in b["ub"]]) if b else np.full(n, np.inf)
    lb, ub = np.where(np.isnan(lb), -np.inf, lb), np.where(np.isnan(ub), np.inf, ub)
    summ["callback_points_checked_in_bounds"] = 0
    if lb.shape == (n,) and ub.shape == (n,) and bool(np.all(lb <= ub)):
        k = 0
        for kind, a in out["rec"].user_calls:
            if kind != "cb":
                continue
            k += 1
            summ["callback_points_checked_in_bounds"] += 1
            if a.shape != (n,) or not (np.all(lb <= a) and np.all(a <= ub)):
                summ["callback_point_outside"] = {"call": k, "x": [float(t) for t in a.ravel()], "lb": [float(t) for t in lb], "ub": [float(t) for t in ub]}
                break
    return summ


def record_many(items, procs=None):
    procs = procs or min(14, max(1, (os.cpu_count() or 2) - 2))
    if len(items) < 8 or procs == 1:
        return [_work(it) for it in items]
    with mp.get_context("fork").Pool(procs) as pool:
        return pool.map(_work, items, chunksize=4)


def request_met_by_result(chk, verdicts, prop):
    """conclusion of Props/C07Point.lean evaluated on what the implementation returned: a result with status 1 is
    feasible within feasibility_tol and meets the target, one with status 4 is feasible within feasibility_tol"""
    n = 0
    for s, v in verdicts:
        if s.get("status") not in (1, 4) or not isinstance(s.get("truth"), dict) or "maxcv" not in s["truth"]:
            continue
        n += 1
        o = s["desc"].get("options") or {}
        tol = float(o.get("feasibility_tol", np.sqrt(np.finfo(float).eps)))
        tgt = o.get("target", -np.inf)
        tgt = -np.inf if tgt == "-inf" else float(tgt)
        mc, fv = s["truth"]["maxcv"], s["truth"]["fun"]
        fail = None
        if not mc <= tol:
            fail = f"status {s['status']} but the returned point has maxcv {mc!r} > feasibility_tol {tol!r}"
        elif s["status"] == 1 and not min(fv, 2.0 ** 100) <= tgt:
            fail = f"status 1 but the returned point has fun {fv!r} > target {tgt!r}"
        if fail:
            chk.violation({"property": prop, "kind": "spec-fails-on-implementation", "desc": s["desc"], "inject": s["inject"], "failure": fail,
                           "result": {k: s.get(k) for k in ("status", "nfev", "nit", "success")},
                           "signature": {"failure": "returned point does not satisfy the request"}})
    chk.coverage["results_with_status_1_or_4_checked_against_the_request"] = n


INJECT_SITES = ["get_index_to_remove", "update_interpolation", "reset_models", "get_geometry_step", "fun_alt_grad"]


def gen_items(rng, n, focus, p_inject=0.05, timeout=90):
    items = []
    for _ in range(n):
        d = genruns.gen(rng, focus)
        inj = None
        if rng.random() < p_inject:
            inj = {INJECT_SITES[int(rng.integers(len(INJECT_SITES)))]: int(rng.integers(1, 6))}
        items.append((d, inj, timeout))
    return items


def classify(summaries):
    """Replay all traces through the Lean driver; returns list of (summary, verdict) where verdict is
    ('ok',), ('reject', index, reason), ('exception', text), ('harness', text)."""
    lines = [s["line"] for s in summaries if s.get("line")]
    answers = iter(common.driver(lines) if lines else [])
    out = []
    for s in summaries:
        if "harness_error" in s:
            out.append((s, ("harness", s["harness_error"])))
        elif s.get("line"):
            a = next(answers)
            if a.startswith("ok"):
                out.append((s, ("ok",)))
            elif a.startswith("reject"):
                parts = a.split(" ", 2)
                out.append((s, ("reject", int(parts[1]), parts[2])))
            else:
                out.append((s, ("reject", -1, "driver answered: " + a)))
        else:
            out.append((s, ("exception", s["exception"])))
    return out


def excerpt(line, idx, width=8):
    evs = line.split(" | ", 1)[1].split(" ; ")
    lo = max(0, idx - width)
    return {"header": line.split(" | ", 1)[0], "events": evs[lo: idx + 2], "first_index": lo, "n_events": len(evs)}


def run_check(chk, rng, replay, prop, modules, focus, n_quick, n_thorough, own_tags, extra=None,
              doc="", p_inject=0.05, merge=False, proof=None, tweak=None):
    """merge=True: the caller has its own coverage; the whole-run numbers go under coverage['whole_runs'].
    proof=(ok, info): reuse the caller's proof stage.  tweak(desc, rng): adjust generated descriptions."""
    ok, info = proof if proof is not None else common.proof_stage(chk, modules)
    if replay is not None:
        items = [(replay["desc"], replay.get("inject"), 120)]
    else:
        n = n_quick if chk.tier == "quick" else n_thorough
        items = gen_items(rng, n, focus, p_inject=p_inject)
        # a share of runs from the generic mix so that every run-level check sees every kind of run
        items += gen_items(rng, max(20, n // 5), "general", p_inject=p_inject)
        if tweak is not None:
            items = [(tweak(d, rng), inj, t) for d, inj, t in items]
        # the hand-written boundary problems and minimised past failures run first and AS THEY ARE
        items = [(c["desc"], c.get("inject"), 120) for c in corpus.load(prop, shared=True)] + items
    summaries = record_many(items)
    verdicts = classify(summaries)
    stat = collections.Counter()
    status_hist = collections.Counter()
    own, foreign, structural, escaped, timeouts = [], [], [], [], []
    harness_errors = []
    n_events = 0
    for s, v in verdicts:
        n_events += s.get("n_events", 0)
        if v[0] == "ok":
            stat["accepted"] += 1
            status_hist[str(s["status"])] += 1
        elif v[0] == "reject":
            tags = v[2].split(" ", 1)[0].split(",")
            stat["rejected"] += 1
            if any(t in own_tags for t in tags):
                own.append((s, v))
            elif all(t.startswith("C") and t[1:].isdigit() for t in tags):
                foreign.append((s, v))
            else:
                structural.append((s, v))
        elif v[0] == "exception":
            text = v[1]
            if text == "timeout":
                timeouts.append((s, v))
            elif is_documented_error(text):
                stat["documented_error"] += 1
            else:
                escaped.append((s, v))
        else:
            stat["harness_error"] += 1
            chk.notes.append("harness error: " + v[1])
            harness_errors.append(v[1])
    nontrivial = set()
    for s, v in verdicts:
        if v[0] == "ok" and (s["nfev"] > 1 or s["status"] in (-1, 2)):
            nontrivial.add(json.dumps(s["desc"], sort_keys=True))
    samples = [{"desc": s["desc"], "status": s.get("status"), "nfev": s.get("nfev"), "n_events": s.get("n_events")}
               for s, v in verdicts[-2:]]
    cov = {}
    cov.update({
        "evaluations": len(items),
        "distinct_nontrivial": len(nontrivial),
        "rule": "whole runs of cobyqa.minimize on generated problems (n 1..5; objective kinds quad/rosen/abs/noisy/lin/const/None, NaN/inf injected at indices or regions; "
                "bounds free/one-sided/two-sided/fixed/narrow/inconsistent/all-fixed; 0-3 linear, nonlinear and dict constraints; maxfev around nb_points; small maxiter; targets; "
                "callbacks of 5 shapes with StopIteration at call k; scale; history/filter sizes; LinAlgError injected at a linear-algebra site). focus=" + focus +
                ". Each run is recorded as an event trace and replayed through Model/Run.lean. Non-trivial = accepted run with more than one evaluation or a degenerate early exit; distinct by problem description.",
        "samples": samples,
        "traces_validated_against_impl": stat["accepted"],
        "traces_rejected": stat["rejected"],
        "events_replayed": n_events,
        "status_histogram": dict(status_hist),
        "documented_errors_for_malformed_arguments": stat["documented_error"],
        "runs_with_soc_step": sum(1 for s, _ in verdicts if s.get("n_soc")),
        "runs_with_geometry_step": sum(1 for s, _ in verdicts if s.get("n_geom")),
        "runs_with_callback": sum(1 for s, _ in verdicts if s.get("n_cb")),
        "rejected_for_other_properties": collections.Counter(v[2].split(" ", 1)[0] for _, v in foreign),
        "timeouts": len(timeouts),
    })
    if merge:
        chk.coverage["whole_runs"] = cov
    else:
        chk.coverage.update(cov)
    chk.assumptions += [
        "theorems quantify over every event trace accepted by Model/Run.lean; a real run inherits them only if its recorded trace is accepted (checked for every run above)",
        "the recorder (harness/trace.py) observes cobyqa through monkey-patched methods and user-function spies; what it cannot see (e.g. reads of module globals) is outside the tie",
    ]
    if doc and not merge:
        chk.coverage["what_is_decided"] = doc
    if extra:
        extra(chk, verdicts)
    # verdicts
    for s, v in own[:5]:
        chk.violation({"property": prop, "kind": "spec-fails-on-implementation", "desc": s["desc"], "inject": s["inject"],
                       "reason": v[2], "event_index": v[1], "trace": excerpt(s["line"], v[1]),
                       "result": {k: s.get(k) for k in ("status", "nfev", "nit", "success", "message")},
                       "explain": "run cobyqa.minimize on the described problem (harness/genruns.build(desc)); the recorded event trace is rejected by the Lean run skeleton at the given event for the stated reason, which is a clause of " + prop,
                       "signature": {"reason": v[2]}})
    if prop == "C08":
        for s, v in escaped[:5]:
            chk.violation({"property": prop, "kind": "exception-escaped", "desc": s["desc"], "inject": s["inject"],
                           "exception": v[1], "events_tail": s.get("events_tail"),
                           "signature": {"exception": v[1].split(":")[0]}})
        for s, v in timeouts[:3]:
            chk.violation({"property": prop, "kind": "no-return-within-timeout", "desc": s["desc"], "inject": s["inject"],
                           "signature": {"exception": "timeout"}})
    if not own and not merge:
        broken = []
        if not ok:
            broken += info.get("problems") or ["proof stage failed"]
        if structural:
            s, v = structural[0]
            broken.append({"correspondence": "recorded trace vs Model/Run.lean", "reason": v[2], "desc": s["desc"],
                           "inject": s["inject"], "trace": excerpt(s["line"], v[1]) if v[1] >= 0 else None})
        if broken and not (prop == "C08" and (escaped or timeouts)):
            chk.violation({"property": prop, "kind": "proof-or-correspondence-broken", "broken": broken,
                           "searched": f"{len(items)} recorded runs, none rejected for a clause of {prop}"}, no_input=True)
    if harness_errors and not chk.violations:
        # runs the recorder itself could not handle: no verdict is better than a silent pass
        raise RuntimeError(f"{len(harness_errors)} of {len(items)} runs could not be recorded, first: {harness_errors[0]}")
    return verdicts
