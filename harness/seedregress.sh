#!/bin/sh
# Regression of the checks against every stored seeded change: for each seeded/<id>, apply the patch to the checkout in
# $COBYQA_REPO (default /repo), run the quick tier of the seed's own property, undo.  Prints one line per seed.
# Run it on a scratch copy (vp run --with-repo), never while other work uses the same checkout.
cd "$(dirname "$0")/.."
for d in seeded/*/; do
  id=$(basename "$d"); p=${id%%-*}
  /venv/bin/python harness/seedtest.py "$d" "$id" "$p" > /tmp/seedreg_$id.txt 2>&1
  python3 - /tmp/seedreg_$id.txt <<'PY'
import sys, json
t = open(sys.argv[1]).read()
try:
    j = json.loads(t[t.index('{\n'):])
    print("SEED", j['id'], 'confirmed', j['confirmed'], {k: (v['violations'], v['with_failing_input'], v.get('replay_on_patched_exit'), v.get('replay_on_clean_exit')) for k, v in j['checks'].items()}, flush=True)
except Exception as e:
    print("SEED", sys.argv[1], "ERROR", t[-300:].replace("\n", " | "), flush=True)
PY
  rm -f /tmp/seedreg_$id.txt
done
