"""Translator: regenerates lean/CobyqaVerif/Gen/*.lean from /repo's current source on every run.

Gen/Settings.lean  exit codes, result messages, documented status table, option / constant names,
                   defaults (binary64 bit patterns) and the defaults the docstring documents, BARRIER
Gen/Handlers.lean  every place where `minimize` decides a status: `except` handlers around
                   TrustRegion(...) / _eval(...) / linear-algebra calls, early returns, loop exits

The files are written only when their content changes.  If the source has a shape the translator
does not understand it raises TranslationError; the caller treats that like a broken proof."""
import ast
import os
import re
import struct
import sys

from common import LEAN, REPO


class TranslationError(Exception):
    pass


def f2b(x):
    return struct.unpack("<Q", struct.pack("<d", float(x)))[0]


def lean_str(s):
    return '"' + s.replace("\\", "\\\\").replace('"', '\\"') + '"'


def _parse(path):
    return ast.parse(open(path).read(), path)


def _enum_members(tree, name):
    for node in tree.body:
        if isinstance(node, ast.ClassDef) and node.name == name:
            out = []
            for st in node.body:
                if isinstance(st, ast.Assign) and len(st.targets) == 1 and isinstance(st.targets[0], ast.Name):
                    out.append((st.targets[0].id, ast.literal_eval(st.value)))
            return out
    raise TranslationError(f"class {name} not found in settings.py")


def _eval_default(expr_src):
    import numpy as np
    ns = {"np": np, "numpy": np, "sys": sys, "True": True, "False": False, "float": float, "int": int}
    return eval(expr_src, {"__builtins__": {}}, ns)


def _defaults(tree, dict_name, enum_name, members):
    """returns {option value name: python source of the default}"""
    m = dict(members)
    for node in tree.body:
        if isinstance(node, ast.Assign) and isinstance(node.targets[0], ast.Name) and node.targets[0].id == dict_name:
            if not isinstance(node.value, ast.Dict):
                raise TranslationError(dict_name + " is not a dict literal")
            out = {}
            for k, v in zip(node.value.keys, node.value.values):
                # key: Options.X.value
                if not (isinstance(k, ast.Attribute) and k.attr == "value" and isinstance(k.value, ast.Attribute)
                        and isinstance(k.value.value, ast.Name) and k.value.value.id == enum_name):
                    raise TranslationError("unexpected key in " + dict_name)
                out[m[k.value.attr]] = ast.unparse(v)
            return out
    raise TranslationError(dict_name + " not found")


def _default_value(src):
    """(kind, payload): ('float', bits) | ('bool', b) | ('int', n) | ('lin', a, b) for lambda n: a*n+b"""
    if src.startswith("lambda n:"):
        body = src[len("lambda n:"):].strip()
        f = _eval_default("lambda n: " + body)
        a, b = f(1) - f(0), f(0)
        if any(f(k) != a * k + b for k in range(0, 7)):
            raise TranslationError("default is not affine in n: " + src)
        return ("lin", int(a), int(b))
    v = _eval_default(src)
    if isinstance(v, bool):
        return ("bool", v)
    if isinstance(v, int):
        return ("int", int(v))
    return ("float", f2b(float(v)))


def _doc_defaults(doc, names):
    """documented default of each name: text after 'Default is' in its docstring entry"""
    out = {}
    for name in names:
        m = re.search(r"^\s*" + re.escape(name) + r" : [^\n]*\n(.*?)(?=^\s*\w+ : |\Z)", doc, flags=re.S | re.M)
        if not m:
            raise TranslationError("no docstring entry for " + name)
        d = re.search(r"Default\s+is\s+``([^`]*)``", m.group(1).replace("\n", " "))
        if not d:
            raise TranslationError("no documented default for " + name)
        out[name] = re.sub(r"\s+", " ", d.group(1)).strip()
    return out


def _doc_value(text):
    t = text.replace("numpy.", "np.")
    if re.fullmatch(r"[0-9]+ \* n( \+ [0-9]+)?", t):
        return _default_value("lambda n: " + t)
    return _default_value(t)


def _status_table(doc):
    rows = re.findall(r"\* - (-?\d+)\s*\n\s*- ([^\n]*(?:\n\s{16,}[^\n*]+)*)", doc)
    if len(rows) < 5:
        raise TranslationError("status table not found in the docstring")
    return [(int(c), re.sub(r"\s+", " ", d).strip().rstrip(".")) for c, d in rows]


def _find_func(tree, name):
    for node in tree.body:
        if isinstance(node, ast.FunctionDef) and node.name == name:
            return node
    raise TranslationError("function " + name + " not found")


def _messages(fn):
    for node in ast.walk(fn):
        if isinstance(node, ast.Dict) and node.keys and all(
                isinstance(k, ast.Attribute) and isinstance(k.value, ast.Name) and k.value.id == "ExitStatus" for k in node.keys):
            return [(k.attr, ast.literal_eval(v)) for k, v in zip(node.keys, node.values)]
    raise TranslationError("message table not found in _build_result")


def _status_of(expr):
    if isinstance(expr, ast.Attribute) and isinstance(expr.value, ast.Name) and expr.value.id == "ExitStatus":
        return expr.attr
    return None


def _exc_name(h):
    t = h.type
    if t is None:
        return "*"
    return ast.unparse(t).replace("np.linalg.", "").replace("numpy.linalg.", "")


def _calls_in(nodes):
    names = []
    for n in nodes:
        for c in ast.walk(n):
            if isinstance(c, ast.Call):
                names.append(ast.unparse(c.func))
    return names


def _handlers(fn):
    """every `except` handler of minimize: (protected call, exception, status, success flag or None)"""
    out = []
    for node in ast.walk(fn):
        if isinstance(node, ast.Try):
            calls = [c for c in _calls_in(node.body)]
            site = calls[0] if calls else "?"
            for h in node.handlers:
                status, success = None, False
                for st in ast.walk(h):
                    if isinstance(st, ast.Assign) and isinstance(st.targets[0], ast.Name):
                        if st.targets[0].id == "status":
                            status = _status_of(st.value)
                        if st.targets[0].id == "success":
                            success = ast.literal_eval(st.value)
                    if isinstance(st, ast.Call) and ast.unparse(st.func) == "_build_result":
                        status = _status_of(st.args[3])
                        success = ast.literal_eval(st.args[2])
                if status is None:
                    raise TranslationError(f"handler of {_exc_name(h)} around {site} does not decide a status")
                out.append((site, _exc_name(h), status, bool(success), node.lineno))
    return out


_RISKY = {"_eval": ["TargetSuccess", "FeasibleSuccess", "CallbackSuccess", "MaxEvalError"],
          "TrustRegion": ["TargetSuccess", "FeasibleSuccess", "CallbackSuccess", "MaxEvalError", "LinAlgError"],
          "framework.get_geometry_step": ["LinAlgError"], "framework.get_index_to_remove": ["LinAlgError"],
          "framework.models.update_interpolation": ["LinAlgError"], "framework.models.reset_models": ["LinAlgError"],
          "framework.models.fun_alt_grad": ["LinAlgError"]}


def _call_sites(fn):
    """EVERY call, anywhere in `minimize`, of a function that can raise one of the internal exceptions, with the
    exception classes caught by the `try` statements that enclose the call (a call in an `except`, `else` or `finally`
    part is not protected by that `try`).  Row: (callee, line, caught classes)"""
    out = []

    def walk(node, caught):
        if isinstance(node, ast.Try):
            mine = caught + [_exc_name(h) for h in node.handlers]
            for st in node.body:
                walk(st, mine)
            for h in node.handlers:
                for st in h.body:
                    walk(st, caught)
            for st in node.orelse + node.finalbody:
                walk(st, caught)
            return
        if isinstance(node, ast.Call):
            name = ast.unparse(node.func)
            if name in _RISKY:
                out.append((name, node.lineno, sorted(set(caught))))
        for ch in ast.iter_child_nodes(node):
            walk(ch, caught)
    for st in fn.body:
        walk(st, [])
    return out


def _direct_exits(fn):
    """status decisions outside handlers: early returns and `status = ...; break` in the loop"""
    handler_nodes = set()
    for node in ast.walk(fn):
        if isinstance(node, ast.ExceptHandler):
            for sub in ast.walk(node):
                handler_nodes.add(id(sub))
    out = []
    for node in ast.walk(fn):
        if id(node) in handler_nodes:
            continue
        if isinstance(node, ast.Assign) and isinstance(node.targets[0], ast.Name) and node.targets[0].id == "status":
            s = _status_of(node.value)
            if s:
                out.append(("assign", s, node.lineno))
        if isinstance(node, ast.Return) and isinstance(node.value, ast.Call) and ast.unparse(node.value.func) == "_build_result":
            s = _status_of(node.value.args[3])
            if s:
                out.append(("return", s, node.lineno))
    return out


_MUTATORS = {"update", "append", "extend", "insert", "pop", "popitem", "clear", "setdefault", "remove", "add", "discard",
             "sort", "reverse", "fill", "itemset", "resize", "put", "__setitem__", "__delitem__"}
_MUTABLE_CALLS = {"dict", "list", "set", "bytearray", "defaultdict", "OrderedDict", "deque", "Counter", "array", "zeros", "ones",
                  "empty", "full", "eye", "arange", "asarray", "zeros_like", "empty_like", "Lock", "RLock", "local", "WeakValueDictionary",
                  "WeakKeyDictionary"}
_MEMO = {"lru_cache", "cache", "memoize"}


def _is_mutable_value(v):
    if isinstance(v, (ast.Dict, ast.List, ast.Set, ast.ListComp, ast.DictComp, ast.SetComp)):
        return True
    if isinstance(v, ast.Call):
        f = v.func
        name = f.id if isinstance(f, ast.Name) else (f.attr if isinstance(f, ast.Attribute) else "")
        return name in _MUTABLE_CALLS
    return False


def _state_sites():
    """every place of the package (tests excluded) where state could outlive a call: module-level variables, class
    attributes, default arguments, memoising decorators, `global` statements, attributes set on functions/classes/
    modules.  Row: (module, kind, name, mutable, written)"""
    pkg = os.path.join(REPO, "cobyqa")
    trees = {}
    for root, dirs, files in os.walk(pkg):
        dirs[:] = sorted(d for d in dirs if d not in ("tests", "__pycache__"))
        for f in sorted(files):
            if f.endswith(".py"):
                path = os.path.join(root, f)
                trees[os.path.relpath(path, REPO)] = _parse(path)
    rows = []
    shared = {}       # name -> mutable?  (module-level variables of any module; imported names keep their name)
    toplevel_defs = set()
    for mod, tree in trees.items():
        for node in tree.body:
            if isinstance(node, (ast.FunctionDef, ast.ClassDef)):
                toplevel_defs.add(node.name)
            targets = []
            if isinstance(node, ast.Assign):
                targets, value = node.targets, node.value
            elif isinstance(node, ast.AnnAssign) and node.value is not None:
                targets, value = [node.target], node.value
            elif isinstance(node, ast.AugAssign):
                targets, value = [node.target], node.value
            for t in targets:
                if isinstance(t, ast.Name):
                    if t.id.startswith("__") and t.id.endswith("__"):
                        continue
                    shared[t.id] = shared.get(t.id, False) or _is_mutable_value(value)
                    rows.append([mod, "module-var", t.id, _is_mutable_value(value), False])
                elif isinstance(t, ast.Attribute):
                    rows.append([mod, "attribute-set-at-import", ast.unparse(t), True, True])
    written = set()
    for mod, tree in trees.items():
        for fn in ast.walk(tree):
            if isinstance(fn, ast.ClassDef):
                for st in fn.body:
                    tv = None
                    if isinstance(st, ast.Assign):
                        tv = (st.targets, st.value)
                    elif isinstance(st, ast.AnnAssign) and st.value is not None:
                        tv = ([st.target], st.value)
                    if tv:
                        for t in tv[0]:
                            if isinstance(t, ast.Name):
                                rows.append([mod, "class-attr", fn.name + "." + t.id, _is_mutable_value(tv[1]), False])
            if not isinstance(fn, (ast.FunctionDef, ast.AsyncFunctionDef, ast.Lambda)):
                continue
            if not isinstance(fn, ast.Lambda):
                for d in fn.args.defaults + [k for k in fn.args.kw_defaults if k is not None]:
                    if _is_mutable_value(d):
                        rows.append([mod, "default-arg", fn.name, True, True])
                for d in fn.decorator_list:
                    src = ast.unparse(d)
                    if any(m in src for m in _MEMO):
                        rows.append([mod, "memo-decorator", fn.name + "@" + src, True, True])
            local = set()
            body = fn.body if isinstance(fn.body, list) else [fn.body]
            globs = set()
            for st in body:
                for node in ast.walk(st):
                    if isinstance(node, ast.Global):
                        globs.update(node.names)
                        for nm in node.names:
                            rows.append([mod, "global-stmt", getattr(fn, "name", "lambda") + ":" + nm, True, True])
                    elif isinstance(node, ast.Name) and isinstance(node.ctx, ast.Store):
                        local.add(node.id)
            if not isinstance(fn, ast.Lambda):
                local.update(a.arg for a in fn.args.args + fn.args.kwonlyargs + fn.args.posonlyargs)
            local -= globs

            def base_name(e):
                while isinstance(e, (ast.Subscript, ast.Attribute)):
                    e = e.value
                return e.id if isinstance(e, ast.Name) else None
            for st in body:
                for node in ast.walk(st):
                    tgt = []
                    if isinstance(node, (ast.Assign, ast.Delete)):
                        tgt = node.targets
                    elif isinstance(node, (ast.AugAssign, ast.AnnAssign)):
                        tgt = [node.target]
                    for t in tgt:
                        if isinstance(t, (ast.Subscript, ast.Attribute)):
                            b = base_name(t)
                            if b is not None and b not in local and (b in shared or b in toplevel_defs):
                                written.add(b)
                                if b in toplevel_defs:
                                    rows.append([mod, "attribute-on-definition", ast.unparse(t), True, True])
                    if isinstance(node, ast.Call) and isinstance(node.func, ast.Attribute) and node.func.attr in _MUTATORS:
                        b = base_name(node.func.value)
                        if b is not None and b not in local and b in shared:
                            written.add(b)
    for r in rows:
        if r[1] == "module-var" and r[2] in written:
            r[4] = True
    return rows


def generate():
    settings = _parse(os.path.join(REPO, "cobyqa", "settings.py"))
    main = _parse(os.path.join(REPO, "cobyqa", "main.py"))
    statuses = _enum_members(settings, "ExitStatus")
    options = _enum_members(settings, "Options")
    constants = _enum_members(settings, "Constants")
    dopt = _defaults(settings, "DEFAULT_OPTIONS", "Options", options)
    dcon = _defaults(settings, "DEFAULT_CONSTANTS", "Constants", constants)
    minimize = _find_func(main, "minimize")
    doc = ast.get_docstring(minimize)
    docdef = _doc_defaults(doc, [v for _, v in options] + [v for _, v in constants])
    table = _status_table(doc)
    msgs = _messages(_find_func(main, "_build_result"))
    import importlib.util
    spec = importlib.util.spec_from_file_location("_cobyqa_settings_for_gen", os.path.join(REPO, "cobyqa", "settings.py"))
    mod = importlib.util.module_from_spec(spec)
    spec.loader.exec_module(mod)
    barrier = f2b(mod.BARRIER)

    def fmt_default(d):
        k = d[0]
        if k == "float":
            return f".float {d[1]}"
        if k == "bool":
            return f".bool {'true' if d[1] else 'false'}"
        if k == "int":
            return f".int {d[1]}"
        return f".lin {d[1]} {d[2]}"

    L = ["/- GENERATED by harness/translate.py from /repo/cobyqa/settings.py and main.py — do not edit. -/",
         "namespace Cobyqa.Gen", "",
         "inductive Default | float (bits : Nat) | bool (b : Bool) | int (n : Nat) | lin (a b : Nat)",
         "deriving DecidableEq, Repr", "",
         "/-- `ExitStatus` members -/",
         "def exitStatus : List (String × Int) := ["]
    L.append(",\n".join(f"  ({lean_str(n)}, {v})" for n, v in statuses) + "]")
    L += ["", "/-- message `_build_result` attaches to each status (by member name) -/", "def messages : List (String × String) := ["]
    L.append(",\n".join(f"  ({lean_str(n)}, {lean_str(m)})" for n, m in msgs) + "]")
    L += ["", "/-- the table of the docstring of `minimize`: code, description -/", "def documentedStatuses : List (Int × String) := ["]
    L.append(",\n".join(f"  ({c}, {lean_str(d)})" for c, d in table) + "]")
    for nm, members, dd in (("Options", options, dopt), ("Constants", constants, dcon)):
        L += ["", f"/-- `{nm}`: value name, default in settings.py -/", f"def default{nm} : List (String × Default) := ["]
        L.append(",\n".join(f"  ({lean_str(v)}, {fmt_default(_default_value(dd[v]))})" for _, v in members) + "]")
        L += ["", f"/-- `{nm}`: value name, default documented in the docstring of `minimize` -/",
              f"def documented{nm} : List (String × Default) := ["]
        L.append(",\n".join(f"  ({lean_str(v)}, {fmt_default(_doc_value(docdef[v]))})" for _, v in members) + "]")
    L += ["", "/-- `BARRIER` -/", f"def barrierBits : Nat := {barrier}", "", "end Cobyqa.Gen", ""]
    files = {"Settings.lean": "\n".join(L)}

    H = ["/- GENERATED by harness/translate.py from the AST of `cobyqa.main.minimize` — do not edit. -/",
         "namespace Cobyqa.Gen", "",
         "/-- every `except` handler of `minimize`: protected call, exception class, status member, success flag -/",
         "def handlers : List (String × String × String × Bool) := ["]
    hs = _handlers(minimize)
    H.append(",\n".join(f"  ({lean_str(s)}, {lean_str(e)}, {lean_str(st)}, {'true' if su else 'false'})" for s, e, st, su, _ in hs) + "]")
    H += ["", "/-- status decisions outside handlers: kind (`return` = early exit, `assign` = loop exit), status member -/",
          "def directExits : List (String × String) := ["]
    H.append(",\n".join(f"  ({lean_str(k)}, {lean_str(st)})" for k, st, _ in _direct_exits(minimize)) + "]")
    H += ["", "/-- every call site, in `minimize`, of a function that can raise an internal exception: callee, exception classes caught around it -/",
          "def callSites : List (String × List String) := ["]
    H.append(",\n".join(f"  ({lean_str(c)}, [{', '.join(lean_str(e) for e in ex)}])" for c, _, ex in _call_sites(minimize)) + "]")
    H += ["", "/-- what each of these functions can raise -/", "def mayRaise : List (String × List String) := ["]
    H.append(",\n".join(f"  ({lean_str(c)}, [{', '.join(lean_str(e) for e in ex)}])" for c, ex in _RISKY.items()) + "]")
    H += ["", "end Cobyqa.Gen", ""]
    files["Handlers.lean"] = "\n".join(H)
    S = ["/- GENERATED by harness/translate.py from every module of /repo/cobyqa (tests excluded) — do not edit. -/",
         "namespace Cobyqa.Gen", "",
         "/-- every site where state could outlive a call of `minimize`: module, kind, name, holds a mutable object, is written by package code -/",
         "def stateSites : List (String × String × String × Bool × Bool) := ["]
    S.append(",\n".join(f"  ({lean_str(m)}, {lean_str(k)}, {lean_str(nm)}, {'true' if mu else 'false'}, {'true' if wr else 'false'})"
                        for m, k, nm, mu, wr in _state_sites()) + "]")
    S += ["", "end Cobyqa.Gen", ""]
    files["State.lean"] = "\n".join(S)
    changed = []
    gdir = os.path.join(LEAN, "CobyqaVerif", "Gen")
    os.makedirs(gdir, exist_ok=True)
    for name, content in files.items():
        p = os.path.join(gdir, name)
        if not os.path.exists(p) or open(p).read() != content:
            open(p, "w").write(content)
            changed.append(name)
    return changed


if __name__ == "__main__":
    print("regenerated:", generate())
