"""C16 (known, not repaired): after the variable with the largest free gradient component has reached its bound, what is
left of the projected gradient is below the ABSOLUTE slack of the descent test of tangential_byrd_omojokun and the
solver stops; the convex (here linear) model could still be decreased."""
import numpy as np
from cobyqa.subsolvers import tangential_byrd_omojokun
g = np.array([0.0004014704455935977, -4.093661117976781e-08, 8.482571203063878e-08, 2.9927643304085573e-07, -1.4603507691682797e-07])
xl = np.array([0.0, -0.2629587938665525, -0.25112755936826625, -0.18071626244031266, -3.635560375619626])
xu = np.array([0.7428153197671467, 0.11092240227890302, np.inf, 3.170954752856605, 0.0])
s = tangential_byrd_omojokun(g, lambda v: np.zeros(5), xl, xu, 4.352387708151691, False, improve_tcg=False)
best = g @ np.array([0.0, xu[1], xl[2], xl[3], 0.0])      # the corner of the box in the descent orthant lies inside the ball
print("step", s, "decrease", -(g @ s), "attainable", -best)
assert g @ s <= 0.8 * best, "the solver stopped with less than 0.8 of the attainable decrease"
