"""C16: the Cauchy geometry step must increase |q| when a feasible improving direction exists,
also when the box fits inside the trust region."""
import numpy as np
from cobyqa.subsolvers import cauchy_geometry
g = np.array([1.0, -2.0])
s = cauchy_geometry(0.0, g, lambda v: 0.0, np.array([-0.1, -0.1]), np.array([0.1, 0.1]), 1.0, False)
print(s, abs(g @ s))
assert abs(g @ s) > 0.0
assert np.allclose(np.abs(s), 0.1)
