"""C02: with inconsistent bounds maxcv must be the largest bound violation at the returned x, not the sum of
the violations of both sides (and NaN bounds must count as no bound there too)."""
import numpy as np
from scipy.optimize import Bounds
from cobyqa import minimize
res = minimize(lambda x: 0.0, [0.5], bounds=Bounds([1.0], [-1.0]))
print(res.status, res.x, res.maxcv)
assert res.status == -1 and res.maxcv == max(1.0 - res.x[0], res.x[0] + 1.0), res.maxcv
res = minimize(lambda x: 0.0, [0.5, 0.0], bounds=Bounds([1.0, np.nan], [-1.0, 3.0]))
assert res.maxcv == 1.5, res.maxcv
