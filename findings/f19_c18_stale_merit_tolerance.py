"""C18: the centre of the trust region is the interpolation point of least merit (ties within rounding go to the
smaller violation).  Before the fix set_best_index computed its rounding tolerance once, from the merit of the point
that was the centre on entry; when that merit is the barrier value 2**100 (the objective returned +inf at x0) the
"tolerance" is 8e15 and every later point with a smaller violation is taken as a tie: the first iteration starts from
a centre of merit 2.64 although a point of merit 1.47 is in the set (penalty 0)."""
import warnings
import numpy as np
import cobyqa.framework as F
from scipy.optimize import Bounds, LinearConstraint, NonlinearConstraint
from cobyqa import minimize

calls = [0]


def fun(x):
    calls[0] += 1
    return np.inf if calls[0] in (1, 5, 13) else 1.171365 * abs(x[0] + 1.463937)


seen = []
orig = F.TrustRegion.get_trust_region_step


def spy(self, options):
    m = []
    for k in range(self.models.npt):
        x = self.models.interpolation.point(k)
        m.append(float(self.merit(x, self.models.fun_val[k], self.models.cub_val[k, :], self.models.ceq_val[k, :])))
    seen.append((int(self.best_index), m, float(self.penalty)))
    return orig(self, options)


F.TrustRegion.get_trust_region_step = spy
with warnings.catch_warnings():
    warnings.simplefilter("ignore")
    minimize(fun, [-1.380118], bounds=Bounds([-1.207769], [2.295339]),
             constraints=(LinearConstraint([[1.176619]], [-2.126964], [np.inf]),
                          NonlinearConstraint(lambda x: 0.61536 * x[0] ** 2 - x[0] + 0.5375, 0.0, 0.0)),
             options={"nb_points": 3, "maxfev": 8, "radius_final": 0.3, "radius_init": 1.0})
b, m, pen = seen[0]
print("first iteration: centre", b, "merits", m, "penalty", pen)
assert m[b] <= min(m) + 1e-9 * max(1.0, abs(min(m))), "the centre is not the interpolation point of least merit"
