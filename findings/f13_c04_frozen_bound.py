"""C04: the normal step must leave a bound when feasibility requires it (1-D interval problems)."""
import numpy as np
from scipy.optimize import Bounds, LinearConstraint
from cobyqa.subsolvers import normal_byrd_omojokun
from cobyqa import minimize
s = normal_byrd_omojokun(np.array([[-1.0]]), np.array([-1.0]), np.zeros((0, 1)), np.zeros(0),
                         np.array([0.0]), np.array([5.0]), 2.0, False)
print("normal step", s)
assert np.allclose(s, [1.0])
rng = np.random.default_rng(1)
bad = 0
for k in range(100):
    a, c = rng.uniform(0.5, 2), rng.uniform(-3, 3)
    lo, hi = sorted(rng.uniform(-3, 3, 2)); cut = rng.uniform(lo, hi)
    # minimise a (x - c)^2 on [lo, hi] with x >= cut
    res = minimize(lambda x: float(a * (x[0] - c) ** 2), [lo], bounds=Bounds([lo], [hi]),
                   constraints=LinearConstraint([[1.0]], cut, np.inf))
    xs = min(max(c, cut), hi)
    if not (res.status == 0 and abs(res.x[0] - xs) <= 1e-4 * max(1, abs(xs))):
        bad += 1
print("failures", bad)
assert bad == 0
