"""C15: the norm of the step does not exceed the trust-region radius beyond rounding.  The boundary-improvement phase of
the tangential solvers rotates the step by angles computed from sqrt(step_sq * grad_sq - grad_step**2) (and, in the
linearly constrained solver, from projections through a QR factorisation); when step and gradient are nearly parallel
the rounding of these quantities is amplified and the rotated step leaves the ball: on this subproblem (found by a
targeted search after the proof of the rotation phase showed that the radius clause needs an EXACT square root) the
step returned had norm 2 (1 + 8.3e-8) for radius 2.  After the fix the step is scaled back onto the sphere."""
import json
import os
import numpy as np
from cobyqa.subsolvers import constrained_tangential_byrd_omojokun
c = json.load(open(os.path.join(os.path.dirname(os.path.abspath(__file__)), "f20_c15_radius_after_rotations.json")))
arr = lambda v: np.array([np.inf if x == "inf" else -np.inf if x == "-inf" else x for x in v], float) if not (v and isinstance(v[0], list)) else np.array(v, float)
n = c["n"]
g, H = arr(c["g"]), np.array(c["H"], float).reshape(n, n)
xl, xu = arr(c["xl"]), arr(c["xu"])
aub = np.array(c["aub"], float).reshape(-1, n)
bub = arr(c["bub"])
aeq = np.array(c["aeq"], float).reshape(-1, n)
s = constrained_tangential_byrd_omojokun(g, lambda v: H @ v, xl, xu, aub, bub, aeq, float(c["delta"]), False, improve_tcg=True)
excess = np.linalg.norm(s) / c["delta"] - 1.0
print("relative excess over the radius:", excess)
assert excess <= 1e-12
assert np.all(s >= np.minimum(xl, 0)) and np.all(s <= np.maximum(xu, 0))
assert np.all(aub @ s <= np.maximum(bub, 0) + 1e-12)
