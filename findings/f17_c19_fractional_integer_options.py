"""C19: integer options that truncate to zero must be rejected like zero itself."""
import numpy as np
from cobyqa import minimize
f = lambda x: float(np.sum((np.asarray(x) - 1) ** 2))  # noqa
bad = []
for k in ("nb_points", "filter_size", "history_size", "maxfev", "maxiter"):
    for v in (0.5, 0.999):
        try:
            r = minimize(f, [0.0, 0.0], options={k: v, "store_history": True})
            bad.append((k, v, "accepted: status %d nfev %d" % (r.status, r.nfev)))
        except ValueError as exc:
            print(k, v, "ValueError:", exc)
        except Exception as exc:  # noqa
            bad.append((k, v, type(exc).__name__ + ": " + str(exc)[:60]))
print("not rejected:", bad)
assert not bad
