"""C12: every constraint model must be updated at a replacement, also when an earlier update
reported an ill-conditioned system."""
import numpy as np
import cobyqa.models as M
calls = []
class Q:
    def __init__(self, ill): self.ill = ill
    def update(self, *a):
        calls.append(self); return self.ill
class I:  # minimal interpolation stub
    def __init__(self): self.xpt = np.zeros((1, 3)); self.x_base = np.zeros(1); self.npt = 3; self.n = 1
m = M.Models.__new__(M.Models)
m._debug = False; m._interpolation = I()
m._fun_val = np.zeros(3); m._cub_val = np.zeros((3, 2)); m._ceq_val = np.zeros((3, 1))
m._fun = Q(True); m._cub = np.array([Q(False), Q(False)], dtype=object); m._ceq = np.array([Q(False)], dtype=object)
m.fun = lambda x: 0.0; m.cub = lambda x: np.zeros(2); m.ceq = lambda x: np.zeros(1)
ill = m.update_interpolation(1, np.ones(1), 1.0, np.ones(2), np.ones(1))
print(len(calls), ill)
assert len(calls) == 4 and ill
