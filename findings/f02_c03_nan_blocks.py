"""C03: a NaN objective value at the first point must not block every later defined point."""
import numpy as np
from cobyqa import minimize
calls = []
def fun(x):
    calls.append(x.copy())
    return np.nan if len(calls) == 1 else float(np.sum((x - 1.0) ** 2))
res = minimize(fun, [0.0, 0.0])
print(res.status, res.fun, res.x, res.nfev)
assert np.isfinite(res.fun), res
