"""C04: a linear inequality active at the starting point with a zero multiplier estimate must not freeze the
normal step (1-D interval problems: the run ended with status 0 at the wrong end of the interval)."""
import numpy as np
from scipy.optimize import Bounds, LinearConstraint
from cobyqa.subsolvers import normal_byrd_omojokun
from cobyqa import minimize
# at x = -0.625: rows -1.75 s <= 0 (active) and -1.125 s <= -0.703125 (violated); the step must go up
s = normal_byrd_omojokun(np.array([[-1.75], [-1.125]]), np.array([0.0, -0.703125]), np.zeros((0, 1)), np.zeros(0),
                         np.array([0.0]), np.array([0.75]), 0.3, False)
print("normal step", s)
assert s[0] > 0.2
# minimise 0.375 x^2 + 4 x on [-5/8, 1/8] with x >= -5/8 and x >= 0 as linear inequalities: minimiser 0
res = minimize(lambda x: 0.375 * x[0] ** 2 + 4.0 * x[0], [39.9], bounds=Bounds([-0.625], [0.125]),
               constraints=LinearConstraint([[-1.75], [-1.125]], -np.inf, [35 / 32, 0.0]))
print(res.status, res.x)
assert res.status == 0 and abs(res.x[0]) <= 1e-4
