"""C08: all variables fixed by the bounds must give status 2, not a ValueError."""
import numpy as np
from scipy.optimize import Bounds
from cobyqa import minimize
for scale in (False, True):
    res = minimize(lambda x: float(np.sum(x**2)), [1.0, 2.0], bounds=Bounds([4, 1], [4, 1]), options={"scale": scale})
    print(res.status, res.x, res.fun, res.nfev)
    assert res.status == 2 and list(res.x) == [4.0, 1.0] and res.fun == 17.0
