"""KNOWN FINDING (not repaired) — C04: a strictly convex quadratic with 4 linear equalities in 5 variables; the solver
reaches the minimiser after ~40 evaluations and then cycles at the final radius until maxfev (status 5).
Exits 0 while the finding is present, 1 once the run terminates with status 0."""
import sys
from fractions import Fraction as Fr
import numpy as np
from scipy.optimize import LinearConstraint
from cobyqa import minimize
f = lambda rows: np.array([[float(Fr(v)) for v in r] for r in rows])  # noqa
H = f([['45/16', '-7/8', '1/8', '-7/16', '11/16'], ['-7/8', '41/8', '-9/4', '-3/8', '-17/16'], ['1/8', '-9/4', '11/4', '-1/2', '15/8'],
       ['-7/16', '-3/8', '-1/2', '121/16', '5/16'], ['11/16', '-17/16', '15/8', '5/16', '59/16']])
g = f([['505/128', '-1047/128', '371/64', '1105/128', '337/128']])[0]
A = f([['1/4', '-2', '3/4', '-1/4', '1/2'], ['-1/4', '1/2', '5/4', '1/4', '1'], ['3/4', '5/4', '1/4', '-5/4', '-1/2'], ['-3/2', '-1', '-7/4', '1/4', '7/4']])
b = f([['-57/32', '-49/32', '49/32', '23/8']])[0]
x0 = [-3.036093853128665, -0.9654998797844454, -4.273840349992128, -3.310245644468682, -2.0960248965233617]
xs = np.array([-0.75, 0.5, -1.375, -1.5, 0.125])
res = minimize(lambda x: float(g @ x + 0.5 * x @ H @ x), x0, constraints=LinearConstraint(A, b, b))
print("status", res.status, "nfev", res.nfev, "distance to the minimiser", np.linalg.norm(res.x - xs))
sys.exit(0 if res.status == 5 and np.linalg.norm(res.x - xs) < 1e-6 else 1)
