"""C02: with all variables fixed, a violated linear constraint must show in maxcv."""
import numpy as np
from scipy.optimize import Bounds, LinearConstraint
from cobyqa import minimize
res = minimize(lambda x: float(np.sum(x**2)), [1.0, 2.0], bounds=Bounds([4, 1], [4, 1]),
               constraints=LinearConstraint([[1.0, 1.0]], -np.inf, 3.0))
print(res.status, res.maxcv, res.success)
assert res.maxcv == 2.0 and not res.success
