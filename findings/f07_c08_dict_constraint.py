"""C08/C10: dict constraints are accepted and behave like the NonlinearConstraint they stand for."""
import numpy as np
from scipy.optimize import NonlinearConstraint
from cobyqa import minimize
fun = lambda x: float((x[0] - 2) ** 2 + (x[1] - 1) ** 2)
c = lambda x, a: a * (x[0] ** 2 + x[1] ** 2) - 1.0
r1 = minimize(fun, [0.5, 0.5], constraints={"type": "eq", "fun": c, "args": (1.0,)})
r2 = minimize(fun, [0.5, 0.5], constraints=NonlinearConstraint(lambda x: c(x, 1.0), 0.0, 0.0))
print(r1.x, r2.x, r1.nfev, r2.nfev)
assert np.array_equal(r1.x, r2.x) and r1.nfev == r2.nfev
r3 = minimize(fun, [0.5, 0.5], constraints=[{"type": "ineq", "fun": lambda x: 1.0 - x[0] - x[1]}])
r4 = minimize(fun, [0.5, 0.5], constraints=NonlinearConstraint(lambda x: 1.0 - x[0] - x[1], 0.0, np.inf))
assert np.array_equal(r3.x, r4.x) and r3.nfev == r4.nfev
