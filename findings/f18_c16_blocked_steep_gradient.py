"""C16: the bound-constrained tangential step achieves at least the decrease of the projected-gradient Cauchy step,
also when the gradient has a steep component that a bound active at the origin blocks (badly scaled gradient, within
12 decades).  Before the fix the first-iteration exit test compared g.sd = -|g_free|^2 with 10 eps n max(1, |g|) taken
over ALL components, so a blocked component of 5e8 made the solver return the zero step although the Cauchy step
decreases the model by 0.83."""
import numpy as np
from cobyqa.subsolvers import tangential_byrd_omojokun
g = np.array([0.001, 477722606.86671937, 0.0, 0.0])
xl = np.array([-826.440521746955, 0.0, -2403.6166639062667, -1459.8472798723633])
xu = np.array([1295.1010265135276, 5293.842107064127, 3151.132302611316, 6262.019700875062])
H = np.zeros((4, 4))
s = tangential_byrd_omojokun(g, lambda v: H @ v, xl, xu, 34823.287451886106, False)
print("step", s, "model decrease", -(g @ s))
assert g @ s <= -0.8
for big, small in [(1e9, 1e-3), (1e12, 1e-2), (1e6, 1e-6)]:
    g = np.array([big, -small, 0.5 * small])
    s = tangential_byrd_omojokun(g, lambda v: np.zeros(3), np.array([0.0, -1.0, -1.0]), np.ones(3), 1.0, False)
    print(big, small, s)
    assert g @ s <= -small
