"""C08: a callback raising StopIteration must never escape from minimize."""
import numpy as np
from scipy.optimize import Bounds
from cobyqa import minimize
def cb(xk):
    raise StopIteration
res = minimize(lambda x: float(np.sum(x**2)), [1.0, 2.0], bounds=Bounds([4, 3], [1, 5]), callback=cb)
print(res.status, res.x, res.nfev)
assert res.status == -1 and res.nfev == 1
res = minimize(lambda x: float(np.sum(x**2)), [1.0, 2.0], bounds=Bounds([4, 3], [4, 3]), callback=cb)
print(res.status, res.x, res.nfev)
assert res.status == 2 and res.nfev == 1
