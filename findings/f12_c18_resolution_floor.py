"""C18: the resolution never drops below radius_final."""
import numpy as np
import cobyqa.framework as F
seen = []
orig = F.TrustRegion.enhance_resolution
def spy(self, options):
    orig(self, options); seen.append((self.resolution, options["radius_final"]))
F.TrustRegion.enhance_resolution = spy
from cobyqa import minimize
minimize(lambda x: float(np.sum((x - 3.0) ** 2)), [0.0, 0.0],
         options={"radius_init": 1.0, "radius_final": 0.3},
         decrease_resolution_factor=0.001, large_resolution_threshold=2.0, moderate_resolution_threshold=1.5)
print(seen)
assert seen and all(res >= rf for res, rf in seen)
