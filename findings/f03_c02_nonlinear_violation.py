"""C02/C06/C10: maxcv must be the true violation and constraints are called once per evaluation."""
import numpy as np
from scipy.optimize import NonlinearConstraint, Bounds
from cobyqa import minimize
ncalls = [0]
def con(x):
    ncalls[0] += 1
    return x[0] ** 2 + x[1] ** 2 - 25.0
fun = lambda x: float((x[0] - 7) ** 2 + (x[1] - 7) ** 2)
res = minimize(fun, [1.0, 1.0], bounds=Bounds([0, 0], [10, 10]),
               constraints=NonlinearConstraint(con, -np.inf, 0.0), options={"scale": True})
true_cv = max(con(res.x), 0.0)
print(res.x, res.maxcv, true_cv, res.nfev, ncalls[0])
assert abs(res.maxcv - true_cv) <= 1e-12, (res.maxcv, true_cv)
assert ncalls[0] - 1 <= res.nfev, (ncalls[0], res.nfev)
# fixed variable + nonlinear constraint used to raise IndexError
res = minimize(fun, [1.0, 1.0], bounds=Bounds([0, 1], [10, 1]),
               constraints=NonlinearConstraint(con, -np.inf, 0.0))
assert abs(res.maxcv - max(con(res.x), 0.0)) <= 1e-12
