"""C16: spider_geometry must not return a step with |q(step)| < |q(0)|: the step lengths to the bounds have to be
computed per straight line (they were one number for all lines, +inf on the positive side), otherwise the final clip
bends the step off the line and the value the routine compared is not the value at the returned step."""
import numpy as np
from cobyqa.subsolvers import spider_geometry
g = np.array([-0.9599946692211677, -1.8105260814993056])
H = np.array([[-0.889698854841585, 0.9928739911071973], [0.9928739911071973, 0.4269395424936624]])
xl = np.array([-0.04482343123665246, -0.0038962151012795552])
xu = np.array([0.056493950124582505, 0.05084419278568974])
xpt = np.array([[0.2111102611524016, 0.08988633424113333, 0.08391396465013536, 0.11255533364076552],
                [0.028219150707361095, 0.1977815278423554, -0.06924610740226306, -0.013971167815072814]])
const, delta = 0.6621500669481077, 0.28159344273396963
s = spider_geometry(const, g, lambda v: float(v @ H @ v), xpt, xl, xu, delta, False)
q = const + g @ s + 0.5 * s @ H @ s
print(s, abs(const), abs(q))
assert np.all(xl <= s) and np.all(s <= xu) and np.linalg.norm(s) <= delta * (1 + 1e-12)
assert abs(q) >= abs(const) * (1 - 1e-12), (abs(q), abs(const))
# the step lies on one of the straight lines (or is zero)
on_line = np.allclose(s, 0) or any(abs(s[0] * xpt[1, k] - s[1] * xpt[0, k]) <= 1e-12 for k in range(xpt.shape[1]))
assert on_line, s
