"""C05: nfev counts evaluations also when fun is None, and maxfev is respected."""
import numpy as np
from scipy.optimize import NonlinearConstraint
from cobyqa import minimize
pts = []
def con(x):
    pts.append(tuple(x))
    return [x[0] ** 2 + x[1] ** 2 - 1.0, x[0] - x[1] ** 3 + 5]
res = minimize(None, [3.0, 3.0], constraints=NonlinearConstraint(con, 0.0, 0.0), options={"maxfev": 7})
n = len(set(pts))
print(res.status, res.nfev, n)
assert n <= 7 and res.nfev == n, (res.nfev, n)
