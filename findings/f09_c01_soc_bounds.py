"""C01: trial points of second-order-correction steps must lie inside the bounds before projection."""
import numpy as np
from scipy.optimize import NonlinearConstraint, Bounds
import cobyqa.problem as P
from cobyqa import minimize
worst = [0.0]
orig = P.Problem.__call__
def spy(self, x, penalty=0.0):
    x = np.asarray(x, float)
    out = np.max(np.maximum(self.bounds.xl - x, x - self.bounds.xu), initial=0.0)
    worst[0] = max(worst[0], out)
    return orig(self, x, penalty)
P.Problem.__call__ = spy
rng = np.random.default_rng(0)
for k in range(200):
    c = rng.uniform(-2, 2, 2)
    a = rng.uniform(0.5, 3)
    fun = lambda x: float(np.sum((x - c) ** 2))
    con = lambda x: a * x[0] ** 2 - x[1]
    x0 = rng.uniform(-1, 1, 2)
    minimize(fun, x0, bounds=Bounds([-1, -1], [1, 1]), constraints=NonlinearConstraint(con, 0.0, 0.0))
print("largest excursion of an internal trial point outside the box:", worst[0])
assert worst[0] <= 1e-12
