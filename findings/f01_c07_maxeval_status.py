"""C07: maxfev below the number of interpolation points must end with status 5, not 6."""
import numpy as np
from cobyqa import minimize
res = minimize(lambda x: float(np.sum(x**2)), [1.0, 2.0], options={"maxfev": 3})
print(res.status, res.nfev, res.nit, res.message)
assert res.status == 5 and res.nfev == 3, res
