"""KNOWN FINDING (not repaired) — C16: with a projected gradient below ~1e-7 the bound-constrained tangential solver
returns the zero step although the Cauchy step decreases the model.  Exits 0 while the finding is present."""
import sys
import numpy as np
from cobyqa.subsolvers import tangential_byrd_omojokun
g = np.array([-3.741149296215285e-08])
s = tangential_byrd_omojokun(g, lambda v: np.zeros(1), np.array([-1.2906079950536533e-06]), np.array([1.6232854266046516e-06]), 1.226954236714588e-05, False)
cauchy = np.array([1.6232854266046516e-06])
print("step", s, "model at the step", float(g @ s), "model at the Cauchy step", float(g @ cauchy))
sys.exit(0 if not np.any(s) else 1)
